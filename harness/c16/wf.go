package c16

// wf.go: the independent well-formedness validator, written from the statement of C16 (properties.jsonl):
//
//	every ROM word has the architecture's word width and decodes to an opcode of the processor; the ROM, register
//	file, inputs and outputs are large enough for every address, register and port the program mentions; the
//	opcode list is sorted and duplicate-free; register and machine sizes agree; the bond graph is well formed.
//
// Nothing of /repo's own checking is called except Machine.ConstraintCheck (named by the statement). What the
// validator takes from /repo are definitions, not checks: Arch.Max_word() (the architecture's word width) and
// the Disassembler of the opcode a word decodes to (to see what the word mentions). Field widths (opcode field,
// 2^R, 2^O) are recomputed here.

import (
	"fmt"
	"regexp"
	"sort"
	"strconv"
	"strings"

	"github.com/BondMachineHQ/BondMachine/pkg/bondmachine"
	"github.com/BondMachineHQ/BondMachine/pkg/procbuilder"
	"verifharness/pbt"
)

// CPExpect is what the SOURCE of one processor mentions (-1 = not known / nothing mentioned).
type CPExpect struct {
	MaxReg  int // highest register index
	MaxIn   int // highest input port index
	MaxOut  int // highest output port index
	Instr   int // number of instructions (ROM code words)
	Data    int // number of ROM data words
	MaxJump int // highest ROM address a jump of the source names
	MaxRam  int // highest RAM address named as an immediate
	RomSize int // `romsize:` given by the user
	RamSize int // `ramsize:` given by the user
	RamData int // number of RAM data words (0 = none)
	SOs     int // shared objects attached to the processor
	// a processor with RAM code too (execmode hy): the machine JSON carries the ROM program only (RAM images travel in
	// the BCOF file, creatorbcof.go:114-130, assembled on THIS architecture), so the architecture has to hold what the
	// RAM code mentions as well
	Mode      string // execution mode the source asks for ("" = not known)
	RamInstr  int    // instructions of the RAM code section (0 = none)
	RamMaxReg int    // highest register / ports the RAM code names (-1 none)
	RamMaxIn  int
	RamMaxOut int
	RamOps    []string // opcodes (after pseudo-instruction resolution) the RAM code uses
}

func unknownCP() CPExpect {
	return CPExpect{MaxReg: -1, MaxIn: -1, MaxOut: -1, Instr: -1, Data: -1, MaxJump: -1, MaxRam: -1, RomSize: -1, RamSize: -1, SOs: -1, RamMaxReg: -1, RamMaxIn: -1, RamMaxOut: -1}
}

// Expect is what the source says about the whole machine (zero / -1 / nil = unknown).
type Expect struct {
	Rsize   int
	Procs   int        // number of processors (-1 unknown)
	CPs     []CPExpect // per processor index; nil = unknown
	Inputs  int        // external inputs (-1 unknown)
	Outputs int        // external outputs (-1 unknown)
	Bonds   int        // connected links (-1 unknown)
	Shared  int        // shared objects of the machine (-1 unknown)
}

func unknownExpect() Expect { return Expect{Procs: -1, Inputs: -1, Outputs: -1, Bonds: -1, Shared: -1} }

var (
	reReg = regexp.MustCompile(`^r([0-9]+)$`)
	reIn  = regexp.MustCompile(`^i([0-9]+)$`)
	reOut = regexp.MustCompile(`^o([0-9]+)$`)
	reNum = regexp.MustCompile(`^[0-9]+$`)
)

// opcodes whose numeric operand is a ROM address in the `ha` execution mode (pkg/procbuilder/op_j*.go)
var romJumps = map[string]bool{"j": true, "jz": true, "jgt0f": true, "jcmpl": true, "jo": true, "jcmpo": true}

// opcodes whose numeric operand is a RAM address
var ramAddr = map[string]bool{"m2r": true, "r2m": true, "ja": true, "jcmpa": true}

func bitsFor(n int) int { // smallest b >= 1 with 2^b >= n (the width of a field that selects one of n things)
	b := 1
	for (1 << uint(b)) < n {
		b++
	}
	return b
}

func opNames(m *procbuilder.Machine) []string {
	var r []string
	for _, o := range m.Op {
		if o == nil {
			r = append(r, "<nil>")
		} else {
			r = append(r, o.Op_get_name())
		}
	}
	return r
}

func archLine(m *procbuilder.Machine) string {
	mode := ""
	if len(m.Modes) > 0 {
		mode = m.Modes[0]
	}
	return fmt.Sprintf("Rsize=%d R=%d N=%d M=%d L=%d O=%d mode=%s ops=%d word=%d slocs=%d vars=%d", m.Rsize, m.R, m.N, m.M, m.L, m.O, mode, len(m.Op), safeMaxWord(m), len(m.Slocs), len(m.Vars))
}

func safeMaxWord(m *procbuilder.Machine) (w int) {
	defer func() {
		if recover() != nil {
			w = -1
		}
	}()
	return m.Max_word()
}

type mention struct {
	maxReg, maxIn, maxOut, maxJump, maxRam int
}

// disasm decodes one word with the Disassembler of its own opcode.
func disasm(m *procbuilder.Machine, op procbuilder.Opcode, rest string) (text string, err error) {
	defer func() {
		if r := recover(); r != nil {
			err = fmt.Errorf("disassembler panic: %v", r)
		}
	}()
	return op.Disassembler(&m.Arch, rest)
}

// wfCP validates one connecting processor. what = "p<i>" for messages.
func wfCP(what string, m *procbuilder.Machine, bmRsize uint8, ex *CPExpect) *pbt.Failure {
	if m == nil {
		return pbt.Failf("wf:nil-domain", "%s: nil machine", what)
	}
	al := archLine(m)
	if m.Rsize != bmRsize {
		return pbt.Failf("wf:rsize", "%s: register size %d differs from the machine's %d [%s]", what, m.Rsize, bmRsize, al)
	}
	if len(m.Modes) == 0 {
		return pbt.Failf("wf:mode", "%s: no execution mode [%s]", what, al)
	}
	// opcode list: sorted by name, duplicate-free, no holes
	for i, op := range m.Op {
		if op == nil {
			return pbt.Failf("wf:ops-sorted", "%s: opcode %d is nil [%s]", what, i, al)
		}
		if i > 0 && !(m.Op[i-1].Op_get_name() < op.Op_get_name()) {
			return pbt.Failf("wf:ops-sorted", "%s: opcode list %v is not sorted and duplicate-free: at %d %q then %q [%s]", what, opNames(m), i, m.Op[i-1].Op_get_name(), op.Op_get_name(), al)
		}
	}
	if _, ok := m.ConstraintCheck(); !ok {
		return pbt.Failf("wf:constraint", "%s: Machine.ConstraintCheck() is false [%s]", what, al)
	}
	nwords := len(m.Slocs) + len(m.Vars)
	// the words of the machine JSON are the ROM program (ha, hy) or the RAM program (vn)
	addrBits := int(m.O)
	if m.Modes[0] == "vn" {
		addrBits = int(m.L)
	}
	jumpBits := addrBits // width of a jump's location field
	if m.Modes[0] == "hy" && int(m.L) > jumpBits {
		jumpBits = int(m.L)
	}
	if addrBits > 30 {
		return pbt.Failf("wf:rom-size", "%s: %d address bits [%s]", what, addrBits, al)
	}
	if (1 << uint(addrBits)) < nwords {
		return pbt.Failf("wf:rom-size", "%s: program memory of 2^%d cells for %d code + %d data words [%s]", what, addrBits, len(m.Slocs), len(m.Vars), al)
	}
	if len(m.Slocs) > 0 && len(m.Op) == 0 {
		return pbt.Failf("wf:opcode-range", "%s: %d ROM words and an empty opcode list [%s]", what, len(m.Slocs), al)
	}
	if ex != nil && ex.Instr > 0 && len(m.Slocs) == 0 {
		return pbt.Failf("wf:empty-rom", "%s: the source has %d instructions, the ROM is empty [%s]", what, ex.Instr, al)
	}
	if len(m.Op) == 0 {
		// nothing to decode
		if ex != nil && ex.Instr > 0 {
			return pbt.Failf("wf:empty-rom", "%s: the source has %d instructions, the processor has no opcodes [%s]", what, ex.Instr, al)
		}
		return nil
	}
	width := safeMaxWord(m)
	if width <= 0 {
		return pbt.Failf("wf:word-width", "%s: Max_word() unusable [%s]", what, al)
	}
	opbits := bitsFor(len(m.Op))
	men := mention{-1, -1, -1, -1, -1}
	up := func(p *int, v int) {
		if v > *p {
			*p = v
		}
	}
	for a, w := range m.Slocs {
		if len(w) != width {
			return pbt.Failf("wf:word-width", "%s: ROM word %d %q has %d bits, the architecture's word is %d [%s]", what, a, w, len(w), width, al)
		}
		if strings.Trim(w, "01") != "" {
			return pbt.Failf("wf:word-alphabet", "%s: ROM word %d %q is not over {0,1} [%s]", what, a, w, al)
		}
		if opbits > len(w) {
			return pbt.Failf("wf:word-width", "%s: ROM word %d %q shorter than the opcode field of %d bits [%s]", what, a, w, opbits, al)
		}
		id, _ := strconv.ParseInt(w[:opbits], 2, 32)
		if int(id) >= len(m.Op) {
			return pbt.Failf("wf:opcode-range", "%s: ROM word %d %q has opcode field %d, the processor has %d opcodes [%s]", what, a, w, id, len(m.Op), al)
		}
		op := m.Op[id]
		name := op.Op_get_name()
		text, err := disasm(m, op, w[opbits:])
		if err != nil {
			return pbt.Failf("wf:disasm", "%s: ROM word %d %q (%s) does not disassemble: %v [%s]", what, a, w, name, err, al)
		}
		line := name + " " + text
		for _, tok := range strings.FieldsFunc(text, func(r rune) bool { return r == ' ' || r == ',' || r == '\t' || r == '[' || r == ']' }) {
			if sm := reReg.FindStringSubmatch(tok); sm != nil {
				k, _ := strconv.Atoi(sm[1])
				up(&men.maxReg, k)
				if k >= (1 << uint(m.R)) {
					return pbt.Failf("wf:reg-file", "%s: ROM word %d %q = `%s` names r%d, the register file has 2^%d registers [%s]", what, a, w, line, k, m.R, al)
				}
			} else if sm := reIn.FindStringSubmatch(tok); sm != nil {
				k, _ := strconv.Atoi(sm[1])
				up(&men.maxIn, k)
				if k >= int(m.N) {
					return pbt.Failf("wf:inputs", "%s: ROM word %d %q = `%s` names input %d, the processor has %d inputs [%s]", what, a, w, line, k, m.N, al)
				}
			} else if sm := reOut.FindStringSubmatch(tok); sm != nil {
				k, _ := strconv.Atoi(sm[1])
				up(&men.maxOut, k)
				if k >= int(m.M) {
					return pbt.Failf("wf:outputs", "%s: ROM word %d %q = `%s` names output %d, the processor has %d outputs [%s]", what, a, w, line, k, m.M, al)
				}
			} else if reNum.MatchString(tok) && len(tok) < 10 {
				k, _ := strconv.Atoi(tok)
				if romJumps[name] && m.Modes[0] == "hy" {
					// a hybrid processor jumps into ROM or RAM: only the width of the location field is known
					up(&men.maxJump, k)
					if k >= (1 << uint(jumpBits)) {
						return pbt.Failf("wf:jump", "%s: ROM word %d %q = `%s` jumps to %d, locations have %d bits [%s]", what, a, w, line, k, jumpBits, al)
					}
				}
				if romJumps[name] && m.Modes[0] == "ha" {
					up(&men.maxJump, k)
					// the simulator halts at pc == len(Slocs) and fails beyond it (vm.go Step); the ROM has 2^O cells
					if k >= (1<<uint(m.O)) || k > len(m.Slocs) {
						return pbt.Failf("wf:jump", "%s: ROM word %d %q = `%s` jumps to %d, the ROM holds %d instructions in 2^%d cells [%s]", what, a, w, line, k, len(m.Slocs), m.O, al)
					}
				}
				if ramAddr[name] {
					up(&men.maxRam, k)
					if k >= (1 << uint(m.L)) {
						return pbt.Failf("wf:ram-size", "%s: ROM word %d %q = `%s` names RAM cell %d, the RAM has 2^%d cells [%s]", what, a, w, line, k, m.L, al)
					}
				}
			}
		}
	}
	for a, w := range m.Vars {
		if len(w) != width {
			return pbt.Failf("wf:word-width", "%s: ROM data word %d %q has %d bits, the architecture's word is %d [%s]", what, a, w, len(w), width, al)
		}
		if strings.Trim(w, "01") != "" {
			return pbt.Failf("wf:word-alphabet", "%s: ROM data word %d %q is not over {0,1} [%s]", what, a, w, al)
		}
	}
	if ex == nil {
		return nil
	}
	// ---- against what the source mentions
	if ex.Instr >= 0 && len(m.Slocs) != ex.Instr {
		return pbt.Failf("wf:rom-length", "%s: the source has %d instructions, the ROM %d [%s]", what, ex.Instr, len(m.Slocs), al)
	}
	if ex.Data >= 0 && len(m.Vars) != ex.Data {
		return pbt.Failf("wf:rom-length", "%s: the source has %d ROM data words, the machine %d [%s]", what, ex.Data, len(m.Vars), al)
	}
	if ex.Mode != "" && m.Modes[0] != ex.Mode {
		return pbt.Failf("wf:mode", "%s: the source asks execmode %s, the machine runs %s [%s]", what, ex.Mode, m.Modes[0], al)
	}
	if ex.RamInstr > 0 {
		if (1 << uint(m.L)) < ex.RamInstr+ex.RamData {
			return pbt.Failf("wf:ram-size", "%s: the source has %d RAM instructions + %d RAM data words, the RAM has 2^%d cells [%s]", what, ex.RamInstr, ex.RamData, m.L, al)
		}
		if ex.RamMaxReg >= (1 << uint(m.R)) {
			return pbt.Failf("wf:reg-file", "%s: the RAM code names r%d, the register file has 2^%d registers [%s]", what, ex.RamMaxReg, m.R, al)
		}
		if ex.RamMaxIn >= int(m.N) {
			return pbt.Failf("wf:inputs", "%s: the RAM code names input %d, the processor has %d inputs [%s]", what, ex.RamMaxIn, m.N, al)
		}
		if ex.RamMaxOut >= int(m.M) {
			return pbt.Failf("wf:outputs", "%s: the RAM code names output %d, the processor has %d outputs [%s]", what, ex.RamMaxOut, m.M, al)
		}
		have := map[string]bool{}
		for _, op := range m.Op {
			have[op.Op_get_name()] = true
		}
		for _, o := range ex.RamOps {
			if !have[o] {
				return pbt.Failf("wf:opcode-range", "%s: the RAM code uses %s, the processor's opcodes are %v [%s]", what, o, opNames(m), al)
			}
		}
	}
	if ex.MaxReg >= 0 {
		if ex.MaxReg >= (1 << uint(m.R)) {
			return pbt.Failf("wf:reg-file", "%s: the source names r%d, the register file has 2^%d registers [%s]", what, ex.MaxReg, m.R, al)
		}
		if men.maxReg < ex.MaxReg {
			return pbt.Failf("wf:dropped-operand", "%s: the source names r%d, the highest register in the ROM is r%d [%s]", what, ex.MaxReg, men.maxReg, al)
		}
	}
	if ex.MaxIn >= 0 {
		if ex.MaxIn >= int(m.N) {
			return pbt.Failf("wf:inputs", "%s: the source names input %d, the processor has %d inputs [%s]", what, ex.MaxIn, m.N, al)
		}
		if men.maxIn < ex.MaxIn {
			return pbt.Failf("wf:dropped-operand", "%s: the source names i%d, the highest input in the ROM is i%d [%s]", what, ex.MaxIn, men.maxIn, al)
		}
	}
	if ex.MaxOut >= 0 {
		if ex.MaxOut >= int(m.M) {
			return pbt.Failf("wf:outputs", "%s: the source names output %d, the processor has %d outputs [%s]", what, ex.MaxOut, m.M, al)
		}
		if men.maxOut < ex.MaxOut {
			return pbt.Failf("wf:dropped-operand", "%s: the source names o%d, the highest output in the ROM is o%d [%s]", what, ex.MaxOut, men.maxOut, al)
		}
	}
	if ex.MaxJump >= 0 {
		if ex.MaxJump >= (1 << uint(addrBits)) {
			return pbt.Failf("wf:jump", "%s: the source jumps to %d, the ROM has 2^%d cells [%s]", what, ex.MaxJump, addrBits, al)
		}
		if men.maxJump < ex.MaxJump {
			return pbt.Failf("wf:dropped-operand", "%s: the source jumps to %d, the highest target in the ROM is %d [%s]", what, ex.MaxJump, men.maxJump, al)
		}
	}
	if ex.MaxRam >= 0 {
		if ex.MaxRam >= (1 << uint(m.L)) {
			return pbt.Failf("wf:ram-size", "%s: the source names RAM cell %d, the RAM has 2^%d cells [%s]", what, ex.MaxRam, m.L, al)
		}
		if men.maxRam < ex.MaxRam {
			return pbt.Failf("wf:dropped-operand", "%s: the source names RAM cell %d, the highest in the ROM is %d [%s]", what, ex.MaxRam, men.maxRam, al)
		}
	}
	// overrides are respected as given: the memory the user asked for is there (adequacy, never minimality)
	if ex.RomSize >= 0 && int(m.O) < ex.RomSize {
		return pbt.Failf("wf:override", "%s: the source asks romsize:%d, the machine has O=%d [%s]", what, ex.RomSize, m.O, al)
	}
	if ex.RamSize >= 0 && int(m.L) < ex.RamSize {
		return pbt.Failf("wf:override", "%s: the source asks ramsize:%d, the machine has L=%d [%s]", what, ex.RamSize, m.L, al)
	}
	return nil
}

// wf validates a whole machine.
func wf(bm *bondmachine.Bondmachine, ex Expect) *pbt.Failure {
	if bm == nil {
		return pbt.Failf("wf:nil", "no machine")
	}
	if ex.Rsize > 0 && int(bm.Rsize) != ex.Rsize {
		return pbt.Failf("wf:rsize", "machine register size %d, the source says %d", bm.Rsize, ex.Rsize)
	}
	if ex.Procs >= 0 && len(bm.Processors) != ex.Procs {
		return pbt.Failf("wf:procs", "%d processors, the source defines %d", len(bm.Processors), ex.Procs)
	}
	for d, m := range bm.Domains {
		used := false
		for _, p := range bm.Processors {
			if p == d {
				used = true
			}
		}
		if used {
			continue // validated below with the processor's expectations
		}
		if f := wfCP(fmt.Sprintf("domain %d", d), m, bm.Rsize, nil); f != nil {
			return f
		}
	}
	sumN, sumM := 0, 0
	for p, d := range bm.Processors {
		if d < 0 || d >= len(bm.Domains) {
			return pbt.Failf("wf:bonds", "processor %d belongs to domain %d, there are %d domains", p, d, len(bm.Domains))
		}
		var cpe *CPExpect
		if p < len(ex.CPs) {
			cpe = &ex.CPs[p]
		}
		if f := wfCP(fmt.Sprintf("p%d", p), bm.Domains[d], bm.Rsize, cpe); f != nil {
			return f
		}
		sumN += int(bm.Domains[d].N)
		sumM += int(bm.Domains[d].M)
	}
	// ---- bond graph (the predicate of C10): one link slot per internal input, every link -1 or an index of an
	// internal output, endpoint lists = sum of the port counts + externals, each endpoint once
	if bm.Inputs < 0 || bm.Outputs < 0 {
		return pbt.Failf("wf:bonds", "negative external port count %d/%d", bm.Inputs, bm.Outputs)
	}
	if ex.Inputs >= 0 && bm.Inputs != ex.Inputs {
		return pbt.Failf("wf:bonds", "%d external inputs, the source attaches %d", bm.Inputs, ex.Inputs)
	}
	if ex.Outputs >= 0 && bm.Outputs != ex.Outputs {
		return pbt.Failf("wf:bonds", "%d external outputs, the source attaches %d", bm.Outputs, ex.Outputs)
	}
	if len(bm.Links) != len(bm.Internal_inputs) {
		return pbt.Failf("wf:bonds", "%d link slots for %d internal inputs", len(bm.Links), len(bm.Internal_inputs))
	}
	if want := bm.Outputs + sumN; len(bm.Internal_inputs) != want {
		return pbt.Failf("wf:bonds", "%d internal inputs, expected %d machine outputs + %d processor inputs", len(bm.Internal_inputs), bm.Outputs, sumN)
	}
	if want := bm.Inputs + sumM; len(bm.Internal_outputs) != want {
		return pbt.Failf("wf:bonds", "%d internal outputs, expected %d machine inputs + %d processor outputs", len(bm.Internal_outputs), bm.Inputs, sumM)
	}
	var wantIn, wantOut, gotIn, gotOut []string
	for k := 0; k < bm.Outputs; k++ {
		wantIn = append(wantIn, fmt.Sprintf("o%d", k))
	}
	for k := 0; k < bm.Inputs; k++ {
		wantOut = append(wantOut, fmt.Sprintf("i%d", k))
	}
	for p, d := range bm.Processors {
		for j := 0; j < int(bm.Domains[d].N); j++ {
			wantIn = append(wantIn, fmt.Sprintf("p%di%d", p, j))
		}
		for j := 0; j < int(bm.Domains[d].M); j++ {
			wantOut = append(wantOut, fmt.Sprintf("p%do%d", p, j))
		}
	}
	name := func(b bondmachine.Bond) string {
		switch b.Map_to {
		case bondmachine.BMINPUT:
			return fmt.Sprintf("i%d", b.Res_id)
		case bondmachine.BMOUTPUT:
			return fmt.Sprintf("o%d", b.Res_id)
		case bondmachine.CPINPUT:
			return fmt.Sprintf("p%di%d", b.Res_id, b.Ext_id)
		case bondmachine.CPOUTPUT:
			return fmt.Sprintf("p%do%d", b.Res_id, b.Ext_id)
		}
		return fmt.Sprintf("?%d:%d:%d", b.Map_to, b.Res_id, b.Ext_id)
	}
	for _, b := range bm.Internal_inputs {
		gotIn = append(gotIn, name(b))
	}
	for _, b := range bm.Internal_outputs {
		gotOut = append(gotOut, name(b))
	}
	sort.Strings(wantIn)
	sort.Strings(wantOut)
	sort.Strings(gotIn)
	sort.Strings(gotOut)
	if strings.Join(wantIn, " ") != strings.Join(gotIn, " ") {
		return pbt.Failf("wf:bonds", "internal inputs are %v, expected %v", gotIn, wantIn)
	}
	if strings.Join(wantOut, " ") != strings.Join(gotOut, " ") {
		return pbt.Failf("wf:bonds", "internal outputs are %v, expected %v", gotOut, wantOut)
	}
	bonds := 0
	for i, l := range bm.Links {
		if l < -1 || l >= len(bm.Internal_outputs) {
			return pbt.Failf("wf:bonds", "link %d points at %d, there are %d internal outputs", i, l, len(bm.Internal_outputs))
		}
		if l >= 0 {
			bonds++
		}
	}
	if ex.Bonds >= 0 && bonds != ex.Bonds {
		return pbt.Failf("wf:bonds", "%d bonds, the source attaches %d", bonds, ex.Bonds)
	}
	if len(bm.Shared_links) != len(bm.Processors) {
		return pbt.Failf("wf:bonds", "%d shared-object lists for %d processors", len(bm.Shared_links), len(bm.Processors))
	}
	if ex.Shared >= 0 && len(bm.Shared_objects) != ex.Shared {
		return pbt.Failf("wf:bonds", "%d shared objects, the source defines %d", len(bm.Shared_objects), ex.Shared)
	}
	for p, l := range bm.Shared_links {
		if p < len(ex.CPs) && ex.CPs[p].SOs >= 0 && len(l) != ex.CPs[p].SOs {
			return pbt.Failf("wf:bonds", "processor %d is attached to %d shared objects, the source attaches %d", p, len(l), ex.CPs[p].SOs)
		}
		for _, so := range l {
			if so < 0 || so >= len(bm.Shared_objects) {
				return pbt.Failf("wf:bonds", "processor %d is attached to shared object %d, there are %d", p, so, len(bm.Shared_objects))
			}
		}
	}
	return nil
}

func isPow2(v int) bool { return v > 0 && v&(v-1) == 0 }

// boundaryKind classifies an index or a length v against the powers of two: "2^k-1" (1, 3, 7, …), "2^k" (2, 4, 8, …),
// "2^k+1" (5, 9, 17, …), "" otherwise.
func boundaryKind(v int) string {
	switch {
	case v >= 1 && isPow2(v+1):
		return "2^k-1"
	case v >= 2 && isPow2(v):
		return "2^k"
	case v >= 5 && isPow2(v-1):
		return "2^k+1"
	}
	return ""
}
