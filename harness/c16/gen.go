package c16

// gen.go: generator of .basm sources whose operands sit at the powers of two (entry basm_sources) and of the
// deliberately unfittable sources (entry unfittable). Directive syntax as in harness/c05/gen.go (which follows
// pkg/basm/asmparser.go + meta.go and the sources the repository itself emits); instruction forms are the
// HLAssemblerMatch patterns of pkg/procbuilder/op_*.go, each probed against the unchanged assembler.
//
// The generator records what the source MENTIONS per processor (Expect): highest register, input, output, jump
// target, RAM address, number of instructions and data words, the user's romsize/ramsize. The validator compares
// the emitted machine with that.

import (
	"fmt"
	"sort"
	"strings"

	"pgregory.net/rapid"
)

// BasmCase is one source for the assembler.
type BasmCase struct {
	Src   string
	Cfg   string   // default | nodyn | minword | minsame
	Exp   Expect   // what the source mentions
	Kinds []string // boundary kinds the source touches ("reg:2^k", "rom:2^k+1", "in:gap", "imm:max", "romsize", …)
	Sites []string // instruction forms that carry the top register / ports (labels)
	Probe bool     // judge recorded mechanisms instead of excluding them (replay files under known/)
}

// regSite is an instruction form with the top register T in one operand position.
type regSite struct {
	name string
	text string // %T = top register, %L = a low register, %I = literal, %i = input port, %o = output port, %A = RAM address
	// needs
	in, out, ram, lit, lbl, so bool
	// the unchanged assembler refuses the form when T is mentioned nowhere else: its HLAssemblerNormalize does not
	// record the register requirement (clean refusal "Unknown register name"; counted, see report)
	noReq bool
}

var regSites = []regSite{
	{name: "rset.dst", text: "rset %T, %I"},
	{name: "movlit.dst", text: "mov %T, %I", lit: true},
	{name: "add.a", text: "add %T, %L"}, {name: "add.b", text: "add %L, %T"},
	{name: "sub.a", text: "sub %T, %L"}, {name: "sub.b", text: "sub %L, %T"},
	{name: "mult.a", text: "mult %T, %L"}, {name: "mult.b", text: "mult %L, %T"},
	{name: "div.a", text: "div %T, %L"}, {name: "div.b", text: "div %L, %T"},
	{name: "cpy.a", text: "cpy %T, %L"}, {name: "cpy.b", text: "cpy %L, %T"},
	{name: "movreg.a", text: "mov %T, %L"}, {name: "movreg.b", text: "mov %L, %T"},
	{name: "clr", text: "clr %T"}, {name: "inc", text: "inc %T"}, {name: "dec", text: "dec %T"},
	{name: "jz.reg", text: "jz %T, last", lbl: true},
	{name: "cmpr.a", text: "cmpr %T, %L"}, {name: "cmpr.b", text: "cmpr %L, %T"},
	{name: "cmprlt.a", text: "cmprlt %T, %L"}, {name: "cmprlt.b", text: "cmprlt %L, %T"},
	{name: "cil", text: "cil %T"}, {name: "cir", text: "cir %T"}, {name: "addi", text: "addi %T"},
	{name: "jri", text: "jri %T"}, {name: "jmp.loc", text: "jmp [%T]"},
	{name: "jrio", text: "jrio %T"}, {name: "jria", text: "jria %T"}, {name: "jcmprio", text: "jcmprio %T"}, {name: "jcmpria", text: "jcmpria %T"},
	{name: "addf.a", text: "addf %T, %L"}, {name: "addf.b", text: "addf %L, %T"}, {name: "multf.b", text: "multf %L, %T"}, {name: "divf.b", text: "divf %L, %T"},
	{name: "expf", text: "expf %T"},
	{name: "addp.b", text: "addp %L, %T"}, {name: "multp.b", text: "multp %L, %T"}, {name: "divp.b", text: "divp %L, %T"},
	{name: "addf16.b", text: "addf16 %L, %T"}, {name: "multf16.b", text: "multf16 %L, %T"}, {name: "divf16.b", text: "divf16 %L, %T"},
	{name: "ro2rri.a", text: "mov %T, rom:[%L]"}, {name: "ro2rri.b", text: "mov %L, rom:[%T]"},
	{name: "ro2r.dst", text: "mov %T, rom:1"},
	{name: "i2r.dst", text: "i2r %T, %i", in: true}, {name: "i2rw.dst", text: "i2rw %T, %i", in: true}, {name: "movin.dst", text: "mov %T, %i", in: true},
	{name: "sicv3.dst", text: "sicv3 %T, %i", in: true},
	{name: "r2o.src", text: "r2o %T, %o", out: true}, {name: "r2owa.src", text: "r2owa %T, %o", out: true}, {name: "movout.src", text: "mov %o, %T", out: true},
	{name: "m2r.dst", text: "m2r %T, %A", ram: true}, {name: "movram.dst", text: "mov %T, ram:%A", ram: true}, {name: "movram.src", text: "mov ram:%A, %T", ram: true},
	{name: "m2rri.a", text: "mov %T, ram:[%L]", ram: true}, {name: "m2rri.b", text: "mov %L, ram:[%T]", ram: true},
	{name: "r2mri.a", text: "mov ram:[%T], %L", ram: true}, {name: "r2mri.b", text: "mov ram:[%L], %T", ram: true},
	{name: "r2q.src", text: "mov q0, %T", so: true}, {name: "q2r.dst", text: "mov %T, q0", so: true}, {name: "q.src", text: "q %T", so: true}, {name: "deq.dst", text: "deq %T", so: true},
	{name: "r2t.src", text: "push %T", so: true}, {name: "t2r.dst", text: "pull %T", so: true}, {name: "r2t.mov", text: "mov st0, %T", so: true}, {name: "t2r.mov", text: "mov %T, st0", so: true},
	{name: "jgt0f.reg", text: "jgt0f %T, last", lbl: true, noReq: true},
	{name: "tsp.reg", text: "tsp %T, 1, 2", noReq: true},
}

// pow2ish draws 2^k + off, k in [kmin, kmax], off in {-1, 0, +1}: the values an off-by-one moves across a field width.
func pow2ish(t *rapid.T, kmin, kmax int, l string) int {
	k := rapid.IntRange(kmin, kmax).Draw(t, l+"_k")
	off := rapid.IntRange(-1, 1).Draw(t, l+"_off")
	return (1 << uint(k)) + off
}

func maxImm(rsize int) uint64 {
	if rsize >= 64 {
		return ^uint64(0)
	}
	return (uint64(1) << uint(rsize)) - 1
}

type cpGen struct {
	name    string
	sec     string
	lines   []string // the instructions, in order (labels: start on 0, last on the final one)
	exp     CPExpect
	usedIn  []int
	usedOut []int
	romData int
	romWide int // index of a ROM datum written with every bit of the register size set (-1: none)
	rsize   int
	ramData int
	sync    bool
	so      bool     // a queue and a stack are attached (shared objects 0 and 1 of the processor)
	ramCode []string // execmode hy: the instructions of the .ramtext section (label rstart on the first one)
	kinds   map[string]bool
	sites   map[string]bool
}

var fillers = []string{"inc r0", "dec r0", "clr r0", "add r0, r1", "cpy r1, r0", "nop", "noop", "inc r1", "mov r1, r0", "mult r0, r1", "rset r1, 1", "rset r0, 0"}

// portSet draws the set of port indexes a program uses: the top index at a power of two, the lower ones with gaps.
func portSet(t *rapid.T, l string) []int {
	switch rapid.IntRange(0, 9).Draw(t, l+"_shape") {
	case 0:
		return nil
	case 1, 2:
		return []int{0}
	}
	top := rapid.SampledFrom([]int{1, 2, 3, 3, 4, 4, 5, 7, 8, 9, 15, 16}).Draw(t, l+"_top")
	set := map[int]bool{top: true}
	switch rapid.IntRange(0, 3).Draw(t, l+"_low") {
	case 0: // only the top one: i3 without i0..i2
	case 1:
		set[0] = true // i0 and i3, not i1/i2
	case 2:
		for k := 0; k < top; k++ {
			if rapid.Bool().Draw(t, l+"_keep") {
				set[k] = true
			}
		}
	default:
		for k := 0; k < top; k++ {
			set[k] = true
		}
	}
	var r []int
	for k := range set {
		r = append(r, k)
	}
	sort.Ints(r)
	return r
}

func genCP(t *rapid.T, rsize int, movLit bool, name, sec string) *cpGen {
	g := &cpGen{name: name, sec: sec, exp: unknownCP(), kinds: map[string]bool{}, sites: map[string]bool{}, romWide: -1, rsize: rsize}
	g.sync = rapid.Bool().Draw(t, "sync")
	var must []string
	lit := func(l string) string {
		vals := []uint64{0, 1, 5, 31, 32, 63, 64, 127, 128, maxImm(rsize), maxImm(rsize) - 1, maxImm(rsize) / 2, maxImm(rsize)/2 + 1}
		v := rapid.SampledFrom(vals).Draw(t, l)
		if v > maxImm(rsize) {
			v = maxImm(rsize)
		}
		if v == maxImm(rsize) {
			g.kinds["imm:2^Rsize-1"] = true
		} else if v >= 31 && v <= 128 {
			g.kinds["imm:"+boundaryKind(int(v))] = true
		}
		if rapid.IntRange(0, 3).Draw(t, l+"_hex") == 0 {
			return fmt.Sprintf("0x%x", v)
		}
		return fmt.Sprintf("%d", v)
	}
	litOp := func(l string) string {
		if movLit && rapid.Bool().Draw(t, l) {
			return "mov"
		}
		return "rset"
	}
	// ---- ports
	g.usedIn = portSet(t, "in")
	g.usedOut = portSet(t, "out")
	if len(g.usedOut) == 0 && rapid.IntRange(0, 3).Draw(t, "someout") != 0 {
		g.usedOut = []int{0}
	}
	// ---- RAM
	ramBits := -1 // RAM the program may address statically
	if rapid.IntRange(0, 3).Draw(t, "ramsize") == 0 {
		g.exp.RamSize = rapid.IntRange(1, 8).Draw(t, "ramsize_k")
		ramBits = g.exp.RamSize
		g.kinds["ramsize"] = true
	}
	if rapid.IntRange(0, 5).Draw(t, "ramdata") == 0 {
		g.ramData = rapid.SampledFrom([]int{1, 2, 3, 4, 5, 7, 8, 9}).Draw(t, "ramdata_n")
		g.exp.RamData = g.ramData
		g.kinds["ramdata"] = true
		if g.exp.RamSize >= 0 && g.ramData > (1<<uint(g.exp.RamSize)) {
			g.exp.RamSize = bitsFor(g.ramData) // the RAM the user declares holds the data the user declares
			ramBits = g.exp.RamSize
		}
		if ramBits < 0 {
			ramBits = bitsFor(g.ramData)
		}
	}
	g.so = rapid.IntRange(0, 4).Draw(t, "so") == 0
	g.exp.SOs = 0
	if g.so {
		g.exp.SOs = 2
		g.kinds["shared-objects"] = true
	}
	// ---- top register and its site
	top := 1
	switch rapid.IntRange(0, 19).Draw(t, "regclass") {
	case 0:
		top = rapid.SampledFrom([]int{127, 128, 255, 256}).Draw(t, "bigreg")
	case 1:
		top = rapid.IntRange(1, 20).Draw(t, "anyreg")
	default:
		top = pow2ish(t, 1, 5, "reg")
	}
	if top < 1 {
		top = 1
	}
	var cand []regSite
	for _, s := range regSites {
		if s.lit && !movLit {
			continue
		}
		if s.in && len(g.usedIn) == 0 {
			continue
		}
		if s.out && len(g.usedOut) == 0 {
			continue
		}
		if s.ram && ramBits < 1 {
			continue
		}
		if s.so && !g.so {
			continue
		}
		if s.noReq && rapid.IntRange(0, 9).Draw(t, "noreq") != 0 {
			continue
		}
		cand = append(cand, s)
	}
	site := rapid.SampledFrom(cand).Draw(t, "site")
	g.sites["site:"+site.name] = true
	T := fmt.Sprintf("r%d", top)
	portOf := func(set []int, l string) int { return set[rapid.IntRange(0, len(set)-1).Draw(t, l)] }
	coveredIn, coveredOut := map[int]bool{}, map[int]bool{}
	ramTop := -1
	expand := func(text string, reg string) string {
		s := strings.ReplaceAll(text, "%T", reg)
		s = strings.ReplaceAll(s, "%L", fmt.Sprintf("r%d", rapid.IntRange(0, 1).Draw(t, "low")))
		if strings.Contains(s, "%I") {
			s = strings.ReplaceAll(s, "%I", lit("siteimm"))
		}
		if strings.Contains(s, "%i") {
			k := g.usedIn[len(g.usedIn)-1]
			coveredIn[k] = true
			s = strings.ReplaceAll(s, "%i", fmt.Sprintf("i%d", k))
		}
		if strings.Contains(s, "%o") {
			k := g.usedOut[len(g.usedOut)-1]
			coveredOut[k] = true
			s = strings.ReplaceAll(s, "%o", fmt.Sprintf("o%d", k))
		}
		if strings.Contains(s, "%A") {
			a := (1 << uint(ramBits)) - 1 // the last cell of the RAM
			if g.exp.RamSize < 0 {
				a = g.ramData - 1
			}
			if a > ramTop {
				ramTop = a
			}
			s = strings.ReplaceAll(s, "%A", fmt.Sprint(a))
		}
		return s
	}
	must = append(must, expand(site.text, T))
	g.exp.MaxReg = top
	if k := boundaryKind(top); k != "" {
		g.kinds["reg:"+k] = true
	}
	// the top register a second time, now and then, at another site (the union of both requirement sets)
	if rapid.IntRange(0, 4).Draw(t, "second") == 0 {
		s2 := rapid.SampledFrom(cand).Draw(t, "site2")
		must = append(must, expand(s2.text, T))
		g.sites["site:"+s2.name] = true
	}
	// r0 and r1 are always there
	must = append(must, fmt.Sprintf("%s r0, %s", litOp("l0"), lit("imm0")))
	if rapid.Bool().Draw(t, "imm1") {
		must = append(must, fmt.Sprintf("%s r1, %s", litOp("l1"), lit("imm1")))
	}
	// every used port is mentioned
	for _, k := range g.usedIn {
		if coveredIn[k] {
			continue
		}
		form := rapid.SampledFrom([]string{"mov r%d, i%d", "mov r%d, i%d", "i2r r%d, i%d", "i2rw r%d, i%d", "sicv3 r%d, i%d"}).Draw(t, "inform")
		must = append(must, fmt.Sprintf(form, rapid.IntRange(0, 1).Draw(t, "inreg"), k))
	}
	for _, k := range g.usedOut {
		if coveredOut[k] {
			continue
		}
		switch rapid.IntRange(0, 3).Draw(t, "outform") {
		case 0:
			must = append(must, fmt.Sprintf("r2o r%d, o%d", rapid.IntRange(0, 1).Draw(t, "outreg"), k))
		case 1:
			must = append(must, fmt.Sprintf("r2owa r%d, o%d", rapid.IntRange(0, 1).Draw(t, "outreg"), k))
		default:
			must = append(must, fmt.Sprintf("mov o%d, r%d", k, rapid.IntRange(0, 1).Draw(t, "outreg")))
		}
	}
	if len(g.usedIn) > 0 {
		g.exp.MaxIn = g.usedIn[len(g.usedIn)-1]
		if k := boundaryKind(g.exp.MaxIn); k != "" {
			g.kinds["in:"+k] = true
		}
		if len(g.usedIn) != g.exp.MaxIn+1 {
			g.kinds["in:gap"] = true
		}
	}
	if len(g.usedOut) > 0 {
		g.exp.MaxOut = g.usedOut[len(g.usedOut)-1]
		if k := boundaryKind(g.exp.MaxOut); k != "" {
			g.kinds["out:"+k] = true
		}
		if len(g.usedOut) != g.exp.MaxOut+1 {
			g.kinds["out:gap"] = true
		}
	}
	_ = portOf
	// static RAM addresses at the edge of the RAM
	if ramBits >= 1 && rapid.Bool().Draw(t, "ramedge") {
		a := (1 << uint(ramBits)) - 1
		if g.exp.RamSize < 0 {
			a = g.ramData - 1
		}
		if rapid.Bool().Draw(t, "ramdir") {
			must = append(must, fmt.Sprintf("mov r0, ram:%d", a))
		} else {
			must = append(must, fmt.Sprintf("mov ram:%d, r1", a))
		}
		if a > ramTop {
			ramTop = a
		}
	}
	if ramTop >= 0 {
		g.exp.MaxRam = ramTop
		if k := boundaryKind(ramTop); k != "" {
			g.kinds["ram:"+k] = true
		}
	}
	if g.ramData > 0 && rapid.Bool().Draw(t, "ramsym") {
		must = append(must, fmt.Sprintf("%s r1, ram:v%d", litOp("lramsym"), g.ramData-1)) // the address of the last RAM datum
	}
	// ---- ROM length and data
	must = append(must, "jz r0, last") // a jump to the highest address of the program
	n := len(must) + 1                 // + the final `j start`
	want := pow2ish(t, 2, 6, "rom")
	if rapid.IntRange(0, 9).Draw(t, "romany") == 0 {
		want = rapid.IntRange(n, n+12).Draw(t, "romlen")
	}
	for want < n {
		// the next boundary value that holds the mandatory instructions
		want++
		for boundaryKind(want) == "" {
			want++
		}
	}
	if rapid.IntRange(0, 3).Draw(t, "romdata") == 0 {
		// code + data at the boundary instead of the code alone
		d := rapid.SampledFrom([]int{1, 2, 3, 4, 5, 8}).Draw(t, "romdata_n")
		if want-d >= n+1 && rapid.Bool().Draw(t, "splitboundary") {
			want -= d
		}
		g.romData = d
		g.exp.Data = d
		g.kinds["romdata"] = true
		g.romWide = -1
		if rapid.IntRange(0, 2).Draw(t, "widedatum") == 0 {
			// a datum as wide as a register: it fits the ROM word or the source must be refused
			g.romWide = rapid.IntRange(0, d-1).Draw(t, "widedatum_at")
			g.kinds["romdata-register-wide"] = true
		}
		must = append(must, fmt.Sprintf("%s r1, rom:k%d", litOp("lromsym"), d-1)) // the address of the last ROM datum
		n++
		if want < n {
			want = n
		}
	} else {
		g.exp.Data = 0
	}
	for len(must)+1 < want {
		must = append(must, rapid.SampledFrom(fillers).Draw(t, "filler"))
	}
	perm := rapid.Permutation(seqInts(len(must))).Draw(t, "order")
	for _, i := range perm {
		g.lines = append(g.lines, must[i])
	}
	g.lines = append(g.lines, "j start")
	g.exp.Instr = len(g.lines)
	g.exp.MaxJump = len(g.lines) - 1
	if k := boundaryKind(g.exp.Instr); k != "" {
		g.kinds["rom:"+k] = true
	}
	if g.romData > 0 {
		if k := boundaryKind(g.exp.Instr + g.romData); k != "" {
			g.kinds["rom+data:"+k] = true
		}
	}
	if rapid.IntRange(0, 4).Draw(t, "hybrid") == 0 {
		genRamCode(t, g, top)
	}
	if rapid.IntRange(0, 3).Draw(t, "romsize") == 0 {
		need := bitsFor(g.exp.Instr + g.romData)
		g.exp.RomSize = need + rapid.SampledFrom([]int{0, 0, 1, 3}).Draw(t, "romsize_extra")
		g.kinds["romsize"] = true
	}
	return g
}

// RAM code of a hybrid processor (cpdef … romcode: S, ramcode: S_ram, execmode: hy). Explicit mnemonics only; some
// opcodes are those of the ROM code (j, jz, rset are always there), some are not; its top register and ports may lie
// above what the ROM code names: the architecture is the union of both requirement sets.
var ramForms = []string{"inc %R", "dec %R", "clr %R", "add r0, %R", "add %R, r1", "cpy %R, r0", "cpy r1, %R", "rset %R, 5", "mult r0, %R",
	"sub %R, r0", "sub r1, %R", "div r0, %R", "cmpr r0, %R", "cmpr %R, r1", "jz %R, rstart"}
var ramFillers = []string{"inc r0", "dec r1", "clr r0", "add r0, r1", "cpy r1, r0", "nop", "mult r0, r1", "rset r1, 1", "sub r0, r1", "div r0, r1", "cmpr r0, r1", "jz r0, rstart"}

func genRamCode(t *rapid.T, g *cpGen, romTop int) {
	g.kinds["hy"] = true
	g.exp.Mode = "hy"
	rtop := pow2ish(t, 1, 4, "ramreg")
	if rapid.Bool().Draw(t, "ramreg_low") {
		rtop = rapid.IntRange(0, 2).Draw(t, "ramreg_small")
	}
	var lines []string
	lines = append(lines, strings.ReplaceAll(rapid.SampledFrom(ramForms).Draw(t, "ramform"), "%R", fmt.Sprintf("r%d", rtop)))
	g.exp.RamMaxReg = rtop
	if rtop < 1 {
		g.exp.RamMaxReg = 1 // the fillers name r0 and r1
	}
	if rtop > romTop {
		g.kinds["hy:ram-reg-above-rom"] = true
	}
	if rapid.Bool().Draw(t, "ramin") {
		k := rapid.SampledFrom([]int{0, 1, 2, 3, 4, 7, 8}).Draw(t, "ramin_k")
		lines = append(lines, fmt.Sprintf("i2r r0, i%d", k))
		g.exp.RamMaxIn = k
		if k > g.exp.MaxIn {
			g.kinds["hy:ram-in-above-rom"] = true
		}
	}
	if rapid.Bool().Draw(t, "ramout") {
		k := rapid.SampledFrom([]int{0, 1, 2, 3, 4, 7, 8}).Draw(t, "ramout_k")
		lines = append(lines, fmt.Sprintf("r2o r1, o%d", k))
		g.exp.RamMaxOut = k
		if k > g.exp.MaxOut {
			g.kinds["hy:ram-out-above-rom"] = true
		}
	}
	want := rapid.SampledFrom([]int{2, 3, 4, 5, 7, 8, 9, 15, 16, 17}).Draw(t, "ramlen")
	for len(lines)+1 < want {
		lines = append(lines, rapid.SampledFrom(ramFillers).Draw(t, "ramfiller"))
	}
	perm := rapid.Permutation(seqInts(len(lines))).Draw(t, "ramorder")
	for _, i := range perm {
		g.ramCode = append(g.ramCode, lines[i])
	}
	g.ramCode = append(g.ramCode, "j rstart")
	g.exp.RamInstr = len(g.ramCode)
	if k := boundaryKind(g.exp.RamInstr + g.ramData); k != "" {
		g.kinds["ramcode:"+k] = true
	}
	ops := map[string]bool{}
	for _, l := range g.ramCode {
		ops[strings.Fields(l)[0]] = true
	}
	g.exp.RamOps = sortedSet(ops)
	// the user's RAM holds the RAM code (and data) the user wrote
	if g.exp.RamSize >= 0 && g.exp.RamInstr+g.ramData > (1<<uint(g.exp.RamSize)) {
		g.exp.RamSize = bitsFor(g.exp.RamInstr + g.ramData)
	}
}

func seqInts(n int) []int {
	r := make([]int, n)
	for i := range r {
		r[i] = i
	}
	return r
}

func (g *cpGen) render(b *strings.Builder) {
	mode := "async"
	if g.sync {
		mode = "sync"
	}
	fmt.Fprintf(b, "%%section %s .romtext iomode:%s\n\tentry start\n", g.sec, mode)
	for i, l := range g.lines {
		if i == 0 {
			b.WriteString("start:\n")
		}
		if i == len(g.lines)-1 {
			b.WriteString("last:\n")
		}
		fmt.Fprintf(b, "\t%s\n", l)
	}
	b.WriteString("%endsection\n")
	if g.romData > 0 {
		fmt.Fprintf(b, "%%section %s_rod .romdata\n", g.sec)
		for k := 0; k < g.romData; k++ {
			if k == g.romWide {
				// (dd groups the bytes of its value four by four: at most 32 bits stay one cell)
				fmt.Fprintf(b, "\tk%d dd 0x%x\n", k, min(maxImm(g.rsize), 0xffffffff))
				continue
			}
			fmt.Fprintf(b, "\tk%d dd 0x%x\n", k, 0x10+k)
		}
		b.WriteString("%endsection\n")
	}
	if len(g.ramCode) > 0 {
		fmt.Fprintf(b, "%%section %s_ram .ramtext iomode:%s\n\tentry rstart\n", g.sec, mode)
		for i, l := range g.ramCode {
			if i == 0 {
				b.WriteString("rstart:\n")
			}
			fmt.Fprintf(b, "\t%s\n", l)
		}
		b.WriteString("%endsection\n")
	}
	if g.ramData > 0 {
		fmt.Fprintf(b, "%%section %s_rad .ramdata\n", g.sec)
		for k := 0; k < g.ramData; k++ {
			fmt.Fprintf(b, "\tv%d dd 0x%x\n", k, 0x20+k)
		}
		b.WriteString("%endsection\n")
	}
}

func (g *cpGen) cpdef() string {
	s := fmt.Sprintf("%%meta cpdef %s romcode: %s", g.name, g.sec)
	if len(g.ramCode) > 0 {
		s += fmt.Sprintf(", ramcode: %s_ram, execmode: hy", g.sec)
	}
	if g.romData > 0 {
		s += fmt.Sprintf(", romdata: %s_rod", g.sec)
	}
	if g.ramData > 0 {
		s += fmt.Sprintf(", ramdata: %s_rad", g.sec)
	}
	if g.exp.RomSize >= 0 {
		s += fmt.Sprintf(", romsize:%d", g.exp.RomSize)
	}
	if g.exp.RamSize >= 0 {
		s += fmt.Sprintf(", ramsize:%d", g.exp.RamSize)
	}
	return s + "\n"
}

var cpNamePool = []string{"alpha", "b2", "cpu10", "cpu9", "Zed", "m_1", "core", "X"}

func genBasm(t *rapid.T) BasmCase {
	var c BasmCase
	rsize := rapid.SampledFrom([]int{8, 8, 8, 16, 32, 12, 24, 64}).Draw(t, "rsize")
	c.Cfg = rapid.SampledFrom([]string{cfgNoDyn, cfgNoDyn, cfgDefault, cfgMinWord, cfgMinSame}).Draw(t, "cfg")
	movLit := c.Cfg != cfgDefault // default switches refuse mov rX, <literal> ("a criteria is needed")
	nCP := rapid.SampledFrom([]int{1, 1, 1, 2, 2, 3}).Draw(t, "ncps")
	names := rapid.Permutation(cpNamePool).Draw(t, "names")[:nCP]
	var cps []*cpGen
	shared := false
	for i := 0; i < nCP; i++ {
		if i > 0 && rapid.IntRange(0, 4).Draw(t, "sharedsec") == 0 {
			// two processors run the same section (each gets the requirements of the section)
			cp := *cps[0]
			cp.name = names[i]
			cps = append(cps, &cp)
			shared = true
			continue
		}
		cps = append(cps, genCP(t, rsize, movLit, names[i], fmt.Sprintf("sec%d", i)))
	}
	// the assembler numbers the processors in the byte order of their names (templateresolver.go:21)
	order := seqInts(nCP)
	sort.Slice(order, func(a, b int) bool { return cps[order[a]].name < cps[order[b]].name })
	rank := make([]int, nCP)
	for r, i := range order {
		rank[i] = r
	}
	// ---- wiring (as harness/c05): an output goes to an unfed input of another processor or to a machine output; an
	// input left unfed gets a machine input; a share of the ports stays unattached
	type att struct {
		cp, typ string
		idx     int
	}
	var pairs [][2]att
	fed := make([]map[int]bool, nCP)
	for i := range fed {
		fed[i] = map[int]bool{}
	}
	nOut, nIn := 0, 0
	for a := 0; a < nCP; a++ {
		for _, op := range cps[a].usedOut {
			if rapid.IntRange(0, 7).Draw(t, "unattached") == 0 {
				continue
			}
			linked := false
			if nCP > 1 && rapid.Bool().Draw(t, "link") {
				type cand struct{ cp, port int }
				var cs []cand
				for b := 0; b < nCP; b++ {
					if b == a {
						continue
					}
					for _, ip := range cps[b].usedIn {
						if !fed[b][ip] {
							cs = append(cs, cand{b, ip})
						}
					}
				}
				if len(cs) > 0 {
					k := cs[rapid.IntRange(0, len(cs)-1).Draw(t, "sink")]
					fed[k.cp][k.port] = true
					pairs = append(pairs, [2]att{{cps[a].name, "output", op}, {cps[k.cp].name, "input", k.port}})
					linked = true
				}
			}
			if !linked {
				pairs = append(pairs, [2]att{{cps[a].name, "output", op}, {"bm", "output", nOut}})
				nOut++
			}
		}
	}
	for b := 0; b < nCP; b++ {
		for _, ip := range cps[b].usedIn {
			if fed[b][ip] || rapid.IntRange(0, 7).Draw(t, "unattached") == 0 {
				continue
			}
			pairs = append(pairs, [2]att{{cps[b].name, "input", ip}, {"bm", "input", nIn}})
			nIn++
		}
	}
	// ---- text
	var sb strings.Builder
	nShared := 0
	metaFirst := rapid.Bool().Draw(t, "metafirst")
	meta := func() {
		fmt.Fprintf(&sb, "%%meta bmdef global registersize:%d\n", rsize)
		for _, g := range cps {
			sb.WriteString(g.cpdef())
			if g.so {
				depth := rapid.SampledFrom([]int{1, 2, 3, 4, 8}).Draw(t, "sodepth")
				fmt.Fprintf(&sb, "%%meta sodef que_%s constraint:queue:%d\n%%meta sodef stk_%s constraint:stack:%d\n", g.name, depth, g.name, depth)
				fmt.Fprintf(&sb, "%%meta soatt que_%s cp: %s, index:0\n%%meta soatt stk_%s cp: %s, index:1\n", g.name, g.name, g.name, g.name)
				nShared += 2
			}
		}
		// the two ioatt lines of a bond in either order (the `cp: bm` line first, or the sink before the
		// source), and the bonds themselves in any order: the text order must not matter
		order := rapid.Permutation(seqInts(len(pairs))).Draw(t, "bondorder")
		if !rapid.Bool().Draw(t, "shufflebonds") {
			order = seqInts(len(pairs))
		}
		for _, k := range order {
			p := pairs[k]
			if rapid.IntRange(0, 2).Draw(t, "swapends") == 0 {
				p[0], p[1] = p[1], p[0]
			}
			for _, a := range p {
				fmt.Fprintf(&sb, "%%meta ioatt b%d cp: %s, index:%d, type:%s\n", k, a.cp, a.idx, a.typ)
			}
		}
	}
	if metaFirst {
		meta()
	}
	rendered := map[string]bool{}
	for _, g := range cps {
		if !rendered[g.sec] {
			g.render(&sb)
			rendered[g.sec] = true
		}
	}
	if !metaFirst {
		meta()
	}
	c.Src = sb.String()
	c.Exp = Expect{Rsize: rsize, Procs: nCP, Inputs: nIn, Outputs: nOut, Bonds: len(pairs), Shared: nShared}
	c.Exp.CPs = make([]CPExpect, nCP)
	kinds, sites := map[string]bool{}, map[string]bool{}
	for i, g := range cps {
		c.Exp.CPs[rank[i]] = g.exp
		for k := range g.kinds {
			kinds[k] = true
		}
		for k := range g.sites {
			sites[k] = true
		}
	}
	if nCP > 1 {
		kinds[fmt.Sprintf("cps=%d", nCP)] = true
	}
	if shared {
		kinds["shared-section"] = true
	}
	c.Kinds = sortedSet(kinds)
	c.Sites = sortedSet(sites)
	return c
}

func sortedSet(m map[string]bool) []string {
	var r []string
	for k := range m {
		r = append(r, k)
	}
	sort.Strings(r)
	return r
}

// ---------------------------------------------------------------------------
// unfittable sources

// UnfitCase is a source with one operand that cannot fit; the oracle is rejection.
type UnfitCase struct {
	Tool  string // basm | bondgo
	Kind  string
	Src   string
	Cfg   string // basm: switch set
	Rsize int
	Mpm   bool // bondgo: -mpm -save-bondmachine (else -save-machine)
	Probe bool
}

func genUnfit(t *rapid.T) UnfitCase {
	if rapid.IntRange(0, 4).Draw(t, "tool") == 0 {
		return genUnfitBondgo(t)
	}
	c := UnfitCase{Tool: "basm"}
	c.Rsize = rapid.SampledFrom([]int{8, 8, 16, 32}).Draw(t, "rsize")
	c.Cfg = rapid.SampledFrom(allCfgs).Draw(t, "cfg")
	over := maxImm(c.Rsize) + 1 + uint64(rapid.SampledFrom([]int{0, 0, 1, 255}).Draw(t, "over"))
	// a small correct program around the offending line; its length decides O
	n := rapid.SampledFrom([]int{3, 4, 5, 7, 8, 9}).Draw(t, "len")
	var body []string
	cpdefExtra := ""
	soExtra := ""
	nData := 0
	kinds := []string{"imm-wide:rset", "imm-wide:mov", "jump-beyond:j", "jump-beyond:jz", "reg-huge", "port-beyond:in", "port-beyond:out", "romsize-small", "romsize-small:data", "romsize-small:hy", "sodef-invalid", "ram-beyond", "romaddr-beyond"}
	c.Kind = rapid.SampledFrom(kinds).Draw(t, "kind")
	var bad string
	switch c.Kind {
	case "imm-wide:rset":
		bad = fmt.Sprintf("rset r1, %d", over)
	case "imm-wide:mov":
		bad = fmt.Sprintf("mov r1, %d", over)
	case "jump-beyond:j", "jump-beyond:jz":
		// beyond the ROM: the first address that needs one more bit than the ROM has, or far beyond
		o := bitsFor(n)
		tgt := (1 << uint(o)) + rapid.SampledFrom([]int{0, 1, 100}).Draw(t, "beyond")
		if c.Kind == "jump-beyond:j" {
			bad = fmt.Sprintf("j %d", tgt)
		} else {
			bad = fmt.Sprintf("jz r0, %d", tgt)
		}
	case "reg-huge":
		bad = fmt.Sprintf("inc r%s", rapid.SampledFrom([]string{"99999999999999999999", "18446744073709551616"}).Draw(t, "huge"))
	case "port-beyond:in":
		bad = fmt.Sprintf("mov r1, i%d", rapid.SampledFrom([]int{255, 256, 511, 65536}).Draw(t, "port"))
	case "port-beyond:out":
		bad = fmt.Sprintf("mov o%d, r1", rapid.SampledFrom([]int{255, 256, 511, 65536}).Draw(t, "port"))
	case "romsize-small":
		// the user's ROM is smaller than the program
		o := bitsFor(n)
		if o < 2 {
			o = 2
		}
		cpdefExtra = fmt.Sprintf(", romsize:%d", rapid.IntRange(1, o-1).Draw(t, "romsize"))
		bad = "inc r1"
	case "sodef-invalid":
		// a shared object whose constraint no object kind accepts (a queue or a stack without its depth, an
		// unknown kind), attached to the processor: there is nothing to attach to
		soExtra = fmt.Sprintf("%%meta sodef so0 constraint:%s\n%%meta soatt so0 cp: cp0, index:0\n", rapid.SampledFrom([]string{"queue", "stack", "nosuchobject:4", "sharedmem"}).Draw(t, "badso"))
		bad = "inc r1"
	case "romsize-small:hy":
		// hybrid processor: the user's ROM is smaller than the ROM program although the RAM is not
		o := bitsFor(n)
		if o < 2 {
			o = 2
		}
		cpdefExtra = fmt.Sprintf(", execmode:hy, romsize:%d, ramsize:%d", rapid.IntRange(1, o-1).Draw(t, "romsize"), o+rapid.IntRange(0, 2).Draw(t, "ramextra"))
		bad = "inc r1"
	case "romsize-small:data":
		// the user's ROM holds the code, but code + data need one or two cells more than it has
		o := bitsFor(n)
		if o < 2 {
			o = 2
		}
		nData = (1 << uint(o)) - n + rapid.SampledFrom([]int{1, 1, 2}).Draw(t, "cellsover")
		cpdefExtra = fmt.Sprintf(", romsize:%d, romdata: data", o)
		bad = "inc r1"
	case "ram-beyond":
		k := rapid.IntRange(1, 6).Draw(t, "ramsize")
		cpdefExtra = fmt.Sprintf(", ramsize:%d", k)
		bad = fmt.Sprintf("mov r1, ram:%d", (1<<uint(k))+rapid.SampledFrom([]int{0, 1, 100}).Draw(t, "beyond"))
	case "romaddr-beyond":
		o := bitsFor(n)
		bad = fmt.Sprintf("mov r1, rom:%d", (1<<uint(o))+rapid.SampledFrom([]int{0, 1, 100}).Draw(t, "beyond"))
	}
	body = append(body, "rset r0, 1", bad)
	for len(body)+2 < n {
		body = append(body, rapid.SampledFrom(fillers).Draw(t, "filler"))
	}
	at := rapid.IntRange(1, len(body)-1).Draw(t, "at")
	body[1], body[at] = body[at], body[1]
	body = append(body, "mov o0, r0", "j start")
	var sb strings.Builder
	sb.WriteString("%section code .romtext iomode:sync\n\tentry start\nstart:\n")
	for _, l := range body {
		fmt.Fprintf(&sb, "\t%s\n", l)
	}
	sb.WriteString("%endsection\n")
	if nData > 0 {
		sb.WriteString("%section data .romdata\n")
		for k := 0; k < nData; k++ {
			fmt.Fprintf(&sb, "\tk%d dd 0x%x\n", k, 1+k)
		}
		sb.WriteString("%endsection\n")
	}
	fmt.Fprintf(&sb, "%%meta cpdef cp0 romcode: code%s\n", cpdefExtra)
	sb.WriteString(soExtra)
	sb.WriteString("%meta ioatt b0 cp: cp0, index:0, type:output\n%meta ioatt b0 cp: bm, index:0, type:output\n")
	fmt.Fprintf(&sb, "%%meta bmdef global registersize:%d\n", c.Rsize)
	c.Src = sb.String()
	return c
}

func genUnfitBondgo(t *rapid.T) UnfitCase {
	c := UnfitCase{Tool: "bondgo", Kind: "imm-wide:go"}
	c.Rsize = rapid.SampledFrom([]int{8, 8, 16}).Draw(t, "rsize")
	c.Mpm = rapid.Bool().Draw(t, "mpm")
	over := maxImm(c.Rsize) + 1 + uint64(rapid.SampledFrom([]int{0, 1, 44}).Draw(t, "over"))
	typ := fmt.Sprintf("uint%d", c.Rsize)
	var b strings.Builder
	b.WriteString("package main\n\nimport (\n\t\"bondgo\"\n)\n\nfunc main() {\n")
	fmt.Fprintf(&b, "\tvar out1 bondgo.Output\n\tvar reg_a %s\n\tvar reg_b %s\n\tout1 = bondgo.Make(bondgo.Output, 1)\n", typ, typ)
	where := rapid.IntRange(0, 2).Draw(t, "where")
	if where == 0 {
		fmt.Fprintf(&b, "\treg_a = %d\n", over)
	} else {
		b.WriteString("\treg_a = 1\n")
	}
	b.WriteString("\tfor {\n")
	switch where {
	case 1:
		fmt.Fprintf(&b, "\t\treg_b = reg_a + %d\n", over)
	case 2:
		fmt.Fprintf(&b, "\t\treg_b = %d\n", over)
	default:
		b.WriteString("\t\treg_b = reg_a + 1\n")
	}
	b.WriteString("\t\tbondgo.IOWrite(out1, reg_b)\n\t\treg_a++\n\t}\n}\n")
	c.Src = b.String()
	return c
}
