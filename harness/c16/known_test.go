package c16

// The minimal cases of the recorded findings (replays/C16/known/*.json). C16_WRITE_KNOWN=<dir> go test ./c16 -run
// TestWriteKnown evaluates each of them with Probe set and writes the replay file (with the failure it produces on
// the tree under test); without the variable the test is skipped.

import (
	"encoding/json"
	"fmt"
	"os"
	"path/filepath"
	"testing"

	"verifharness/pbt"
)

func oneCP(src string, cp CPExpect, rsize, outs int) BasmCase {
	return BasmCase{Src: src, Cfg: cfgNoDyn, Probe: true,
		Exp: Expect{Rsize: rsize, Procs: 1, CPs: []CPExpect{cp}, Inputs: 0, Outputs: outs, Bonds: outs, Shared: -1}}
}

const knownTail = `%meta ioatt b0 cp: cp0, index:0, type:output
%meta ioatt b0 cp: bm, index:0, type:output
%meta bmdef global registersize:8
`

func knownCases() map[string]struct {
	entry string
	c     any
	prop  func() pbt.Outcome
} {
	type kc = struct {
		entry string
		c     any
		prop  func() pbt.Outcome
	}
	r := map[string]kc{}
	// 1. romsize:3 (8 cells) holds 6 instructions + 1 datum; the processor is created with O = bits((2 XOR 3) + 1) = 1
	{
		cp := unknownCP()
		cp.MaxReg, cp.MaxOut, cp.Instr, cp.Data, cp.MaxJump, cp.RomSize = 1, 0, 6, 1, 5, 3
		c := oneCP(`%section code .romtext iomode:sync
	entry start
start:
	rset r0, 5
	rset r1, rom:k0
	inc r0
	mov o0, r0
	jz r0, last
last:
	j start
%endsection
%section dat .romdata
	k0 dd 0x10
%endsection
%meta cpdef cp0 romcode: code, romdata: dat, romsize:3
`+knownTail, cp, 8, 1)
		r["override-xor-romsize-romdata-panics"] = kc{"basm_sources", c, func() pbt.Outcome { return propBasm(c) }}
	}
	// 2. ramsize:8 with two RAM data words: L = bits((2 XOR 8) + 2) = 4 instead of 8
	{
		cp := unknownCP()
		cp.MaxReg, cp.MaxOut, cp.Instr, cp.Data, cp.MaxJump, cp.RamSize, cp.RamData = 1, 0, 5, 0, 4, 8, 2
		c := oneCP(`%section code .romtext iomode:sync
	entry start
start:
	rset r1, 200
	mov r0, ram:[r1]
	mov o0, r0
	jz r0, last
last:
	j start
%endsection
%section rd .ramdata
	v0 dd 0x20
	v1 dd 0x21
%endsection
%meta cpdef cp0 romcode: code, ramdata: rd, ramsize:8
`+knownTail, cp, 8, 1)
		r["override-xor-ramsize-ramdata-shrunk"] = kc{"basm_sources", c, func() pbt.Outcome { return propBasm(c) }}
	}
	// 3. romsize:6 with a romdata section: assembled with O = bits((2 XOR 6) + 2) = 3, then O is recomputed as bits(8 + 2) = 4
	{
		cp := unknownCP()
		cp.MaxReg, cp.MaxOut, cp.Instr, cp.Data, cp.MaxJump, cp.RomSize = 1, 0, 8, 2, 7, 6
		c := oneCP(`%section code .romtext iomode:sync
	entry start
start:
	rset r0, 5
	rset r1, rom:k1
	mov r0, rom:[r1]
	inc r0
	inc r0
	mov o0, r0
	jz r0, last
last:
	j start
%endsection
%section dat .romdata
	k0 dd 0x10
	k1 dd 0x11
%endsection
%meta cpdef cp0 romcode: code, romdata: dat, romsize:6
`+knownTail, cp, 8, 1)
		r["rom-resized-after-assembly"] = kc{"basm_sources", c, func() pbt.Outcome { return propBasm(c) }}
	}
	// 3b. jgt0f is the only instruction that names r4
	{
		cp := unknownCP()
		cp.MaxReg, cp.MaxOut, cp.Instr, cp.Data, cp.MaxJump = 4, 0, 5, 0, 4
		c := oneCP(`%section code .romtext iomode:sync
	entry start
start:
	rset r0, 5
	jgt0f r4, last
	mov o0, r0
	jz r0, last
last:
	j start
%endsection
%meta cpdef cp0 romcode: code
`+knownTail, cp, 8, 1)
		c.Sites = []string{"site:jgt0f.reg"}
		r["register-requirement-missing-jgt0f"] = kc{"basm_sources", c, func() pbt.Outcome { return propBasm(c) }}
	}
	// 4. romsize:2 (4 cells) and 8 instructions
	{
		c := UnfitCase{Tool: "basm", Kind: "romsize-small", Cfg: cfgNoDyn, Rsize: 8, Probe: true, Src: `%section code .romtext iomode:sync
	entry start
start:
	rset r0, 1
	inc r0
	inc r0
	inc r0
	inc r0
	inc r0
	mov o0, r0
	j start
%endsection
%meta cpdef cp0 romcode: code, romsize:2
` + knownTail}
		r["rom-overflow-panics"] = kc{"unfittable", c, func() pbt.Outcome { return propUnfit(c) }}
	}
	// 5. bondgo: a constant wider than the register
	{
		c := UnfitCase{Tool: "bondgo", Kind: "imm-wide:go", Rsize: 8, Mpm: true, Probe: true, Src: `package main

import (
	"bondgo"
)

func main() {
	var out1 bondgo.Output
	var reg_a uint8
	out1 = bondgo.Make(bondgo.Output, 1)
	reg_a = 256
	for {
		bondgo.IOWrite(out1, reg_a)
		reg_a++
	}
}
`}
		r["bondgo-swallows-imm-wide"] = kc{"unfittable", c, func() pbt.Outcome { return propUnfit(c) }}
	}
	// 6. bondgo: `go f(5)` (C12's D-C12-go-value-arg-empty-rom seen from C16: emitted instead of rejected)
	{
		c := GoCase{Rsize: 8, Mpm: true, Probe: true, Src: `package main

import (
	"bondgo"
)

func w1(k uint8) {
	var outw bondgo.Output
	var reg_p uint8
	outw = bondgo.Make(bondgo.Output, 2)
	reg_p = k
	for {
		reg_p++
		bondgo.IOWrite(outw, reg_p)
	}
}

func main() {
	var out1 bondgo.Output
	var reg_a uint8
	out1 = bondgo.Make(bondgo.Output, 1)
	reg_a = 1
	go w1(5)
	for {
		bondgo.IOWrite(out1, reg_a)
		reg_a++
	}
}
`}
		r["bondgo-swallows-go-value-arg"] = kc{"bondgo", c, func() pbt.Outcome { return propGo(c) }}
	}
	// 7. regression (passes on the repaired tree): a hybrid processor whose ROM and RAM code share opcodes; the opcode
	// list is the duplicate-free union, the architecture holds what the RAM code names (r5, i2, o3)
	{
		cp := unknownCP()
		cp.MaxReg, cp.MaxOut, cp.Instr, cp.Data, cp.MaxJump = 1, 0, 4, 0, 0
		cp.Mode, cp.RamInstr, cp.RamMaxReg, cp.RamMaxIn, cp.RamMaxOut = "hy", 6, 5, 2, 3
		cp.RamOps = []string{"i2r", "inc", "j", "r2o", "rset", "sub"}
		c := oneCP(`%section code .romtext iomode:async
	entry start
start:
	clr r0
	rset r1, 3
	r2o r0, o0
	j start
%endsection
%section code_ram .ramtext iomode:async
	entry rstart
rstart:
	inc r0
	rset r5, 7
	i2r r0, i2
	r2o r0, o3
	sub r0, r1
	j rstart
%endsection
%meta cpdef cp0 romcode: code, ramcode: code_ram, execmode: hy
`+knownTail, cp, 8, 1)
		c.Probe = false
		r["hybrid-shared-opcodes"] = kc{"basm_sources", c, func() pbt.Outcome { return propBasm(c) }}
	}
	// 8. regression: a register size the compiler has no type for; machine and processors agree
	{
		c := GoCase{Rsize: 12, Mpm: true, Src: `package main

import (
	"bondgo"
)

func w1() {
	var outw bondgo.Output
	var reg_p uint8
	outw = bondgo.Make(bondgo.Output, 2)
	for {
		reg_p++
		bondgo.IOWrite(outw, reg_p)
	}
}

func main() {
	var out1 bondgo.Output
	var reg_a uint8
	out1 = bondgo.Make(bondgo.Output, 1)
	reg_a = 1
	go w1()
	for {
		bondgo.IOWrite(out1, reg_a)
		reg_a++
	}
}
`}
		r["bondgo-odd-register-size"] = kc{"bondgo", c, func() pbt.Outcome { return propGo(c) }}
	}
	return r
}

func TestWriteKnown(t *testing.T) {
	dir := os.Getenv("C16_WRITE_KNOWN")
	if dir == "" {
		t.Skip("C16_WRITE_KNOWN not set")
	}
	if err := os.MkdirAll(dir, 0o755); err != nil {
		t.Fatal(err)
	}
	for name, k := range knownCases() {
		out := pbt.Guard(k.prop)
		raw, _ := json.Marshal(k.c)
		rf := pbt.ReplayFile{Property: "C16", Entry: k.entry, Failure: out.Fail, Case: raw}
		b, _ := json.MarshalIndent(rf, "", " ")
		if err := os.WriteFile(filepath.Join(dir, name+".json"), b, 0o644); err != nil {
			t.Fatal(err)
		}
		sig := "<passes>"
		if out.Fail != nil {
			sig = out.Fail.Sig
		}
		fmt.Printf("KNOWN %-42s entry=%-13s excluded=%q sig=%s\n", name, k.entry, out.Excluded, sig)
	}
}
