package c16

// nbq.go: the generator front-ends neuralbond and bmqsim, in process, up to the emitted .basm text. The case
// types, the generators and the replicas of cmd/neuralbond/neuralbond.go and cmd/bmqsim/bmqsim.go are copied from
// harness/c07/nb.go and harness/c07/q.go (package c07 keeps them unexported), trimmed to what C16 needs and
// widened at the boundaries C16 is about (layer widths and input counts at 2^k-1, 2^k, 2^k+1).

import (
	"encoding/json"
	"fmt"
	"os"
	"path/filepath"
	"sort"
	"strings"

	"github.com/BondMachineHQ/BondMachine/pkg/bmbuilder"
	"github.com/BondMachineHQ/BondMachine/pkg/bminfo"
	"github.com/BondMachineHQ/BondMachine/pkg/bmmatrix"
	"github.com/BondMachineHQ/BondMachine/pkg/bmnumbers"
	"github.com/BondMachineHQ/BondMachine/pkg/bmqsim"
	"github.com/BondMachineHQ/BondMachine/pkg/neuralbond"
	"pgregory.net/rapid"
)

func repoDir() string {
	if d := os.Getenv("VERIF_REPO"); d != "" {
		return d
	}
	return "/repo"
}

func scratchRoot() string {
	if d := os.Getenv("VERIF_WORK"); d != "" {
		return d
	}
	return os.TempDir()
}

// uni draws 0..n-1 from fair coins (harness/c12/gen.go): rapid's integer generators favour small values, which makes the
// few cases a shard evaluates of these expensive entries nearly identical.
func uni(t *rapid.T, n int, label string) int {
	k := 3
	for (1 << uint(k-3)) < n {
		k++
	}
	v := 0
	for i := 0; i < k; i++ {
		v <<= 1
		if rapid.Bool().Draw(t, label) {
			v |= 1
		}
	}
	return v % n
}

func pick[T any](t *rapid.T, xs []T, label string) T { return xs[uni(t, len(xs), label)] }

// ---------------------------------------------------------------------------
// neuralbond

type NBNode struct {
	Layer int
	Pos   int
	Type  string
	Bias  float32
}

type NBWeight struct {
	Layer        int
	PosCurrLayer int
	PosPrevLayer int
	Value        float32
}

type NBNet struct {
	Nodes   []NBNode
	Weights []NBWeight
}

// NBCase is one neuralbond invocation followed by basm.
type NBCase struct {
	Net       NBNet
	Sizes     []int  // layer widths (inputs first), redundant with Net, kept for the labels
	Mode      string // romcode | fragment
	IOMode    string // async | sync
	DataType  string
	RegSize   int
	Collapsed [][]string // config: groups collapsed into one CP (fragment mode)
}

func neuronLib() string { return filepath.Join(repoDir(), "library", "neurons") }

// widths near the powers of two: a neuron with n incoming weights reads inputs i0..i(n-1)
var nbWidths = []int{1, 2, 3, 4, 5, 7, 8, 9}

func genNBCase(t *rapid.T) NBCase {
	var c NBCase
	c.Mode = pick(t, []string{"romcode", "fragment", "fragment"}, "mode")
	c.IOMode = pick(t, []string{"async", "sync"}, "iomode")
	c.DataType, c.RegSize = "float32", 32
	if uni(t, 4, "f16") == 0 {
		c.DataType, c.RegSize = "float16", 16
	}
	hidden := 1 + uni(t, 2, "hidden")
	var sizes []int
	sizes = append(sizes, pick(t, nbWidths, "inputs"))
	for i := 0; i < hidden; i++ {
		w := pick(t, nbWidths[:6], "width")
		if i > 0 && sizes[0]*sizes[1] > 20 {
			w = 1 + uni(t, 2, "narrow") // keep the number of weights (one CP each) bounded
		}
		sizes = append(sizes, w)
	}
	c.Sizes = sizes
	w := func(l string) float32 { return float32(rapid.IntRange(-2000, 2000).Draw(t, l)) / 1000 }
	for p := 0; p < sizes[0]; p++ {
		c.Net.Nodes = append(c.Net.Nodes, NBNode{Layer: 0, Pos: p, Type: "input"})
	}
	full := rapid.Bool().Draw(t, "full")
	for l := 1; l < len(sizes); l++ {
		typ := pick(t, []string{"linear", "linear", "summation", "softmax"}, "ltype")
		for p := 0; p < sizes[l]; p++ {
			c.Net.Nodes = append(c.Net.Nodes, NBNode{Layer: l, Pos: p, Type: typ, Bias: w("bias")})
			var kept []int
			for q := 0; q < sizes[l-1]; q++ {
				if full || uni(t, 4, "keep") != 0 {
					kept = append(kept, q)
				}
			}
			if len(kept) == 0 {
				kept = []int{rapid.IntRange(0, sizes[l-1]-1).Draw(t, "one")}
			}
			for _, q := range kept {
				c.Net.Weights = append(c.Net.Weights, NBWeight{Layer: l, PosCurrLayer: p, PosPrevLayer: q, Value: w("w")})
			}
		}
	}
	last := len(sizes) - 1
	for p := 0; p < sizes[last]; p++ {
		c.Net.Nodes = append(c.Net.Nodes, NBNode{Layer: last + 1, Pos: p, Type: "output"})
		c.Net.Weights = append(c.Net.Weights, NBWeight{Layer: last + 1, PosCurrLayer: p, PosPrevLayer: p, Value: 1})
	}
	if c.Mode == "fragment" {
		used := map[string]bool{}
		for _, wg := range c.Net.Weights {
			if uni(t, 5, "collapse") != 0 {
				continue
			}
			wn := fmt.Sprintf("weightfi_%d_%d__%d_%d", wg.Layer-1, wg.PosPrevLayer, wg.Layer, wg.PosCurrLayer)
			nn := fmt.Sprintf("node_%d_%d", wg.Layer, wg.PosCurrLayer)
			if used[wn] || used[nn] {
				continue
			}
			used[wn], used[nn] = true, true
			c.Collapsed = append(c.Collapsed, []string{wn, nn})
		}
	}
	return c
}

func (c NBCase) netJSON() string {
	b, _ := json.MarshalIndent(c.Net, "", "  ")
	return string(b)
}

func (c NBCase) configJSON() string {
	cfg := map[string]any{"Params": map[string]string{"expprec": "2"}}
	if len(c.Collapsed) > 0 {
		cfg["Collapsed"] = c.Collapsed
	}
	b, _ := json.Marshal(cfg)
	return string(b)
}

// fanIn is the largest number of weights entering one neuron (the neuron's CP reads that many inputs).
func (c NBCase) fanIn() int {
	n := map[[2]int]int{}
	max := 0
	for _, w := range c.Net.Weights {
		k := [2]int{w.Layer, w.PosCurrLayer}
		n[k]++
		if n[k] > max {
			max = n[k]
		}
	}
	return max
}

// nbEmit replicates cmd/neuralbond/neuralbond.go main() and returns the emitted basm text.
func nbEmit(c NBCase) (text string, err error) {
	resetRegistries()
	restore := quiet()
	defer restore()
	defer func() {
		if r := recover(); r != nil {
			text, err = "", fmt.Errorf("panic: %v", r)
		}
	}()
	net := new(neuralbond.TrainedNet)
	if err := json.Unmarshal([]byte(c.netJSON()), net); err != nil {
		return "", err
	}
	net.RegisterSize = c.RegSize
	switch c.Mode {
	case "romcode":
		net.OperatingMode = neuralbond.ROMCODE
	case "fragment":
		net.OperatingMode = neuralbond.FRAGMENT
	}
	config := new(neuralbond.Config)
	if err := json.Unmarshal([]byte(c.configJSON()), config); err != nil {
		return "", err
	}
	config.BMinfo = new(bminfo.BMinfo)
	if config.Params == nil {
		config.Params = make(map[string]string)
	}
	if config.List == nil {
		config.List = make(map[string]string)
	}
	if config.Pruned == nil {
		config.Pruned = make([]string, 0)
	}
	config.NeuronLibPath = neuronLib()
	if err := net.Init(config); err != nil {
		return "", err
	}
	if c.IOMode == "sync" {
		net.IOMode = neuralbond.SYNC
	} else {
		net.IOMode = neuralbond.ASYNC
	}
	net.Normalize()
	found := false
	setType := func() {
		for _, tpy := range bmnumbers.AllTypes {
			if tpy.GetName() == c.DataType {
				for opType, opName := range tpy.ShowInstructions() {
					config.Params[opType] = opName
				}
				config.DataType = c.DataType
				config.TypePrefix = tpy.ShowPrefix()
				config.Params["typeprefix"] = tpy.ShowPrefix()
				found = true
				break
			}
		}
	}
	setType()
	if !found {
		if created, err := bmnumbers.EventuallyCreateType(c.DataType, nil); err == nil && created {
			setType()
		} else {
			return "", fmt.Errorf("unknown data type")
		}
	}
	return net.WriteBasm()
}

// neuronLibSources: the library sources handed to basm together with the emitted file: rom-*.basm for
// romcode, frag-*.basm for fragment mode (both families define the same names).
func neuronLibSources(mode string) []string {
	prefix := "rom-"
	if mode == "fragment" {
		prefix = "frag-"
	}
	ents, _ := os.ReadDir(neuronLib())
	var names []string
	for _, e := range ents {
		if strings.HasPrefix(e.Name(), prefix) && strings.HasSuffix(e.Name(), ".basm") {
			names = append(names, e.Name())
		}
	}
	sort.Strings(names)
	var r []string
	for _, n := range names {
		b, _ := os.ReadFile(filepath.Join(neuronLib(), n))
		r = append(r, string(b))
	}
	return r
}

// the switches the neuralbond / bmqsim flows of the repository hand to basm (Makefile templates, harness/c07)
const (
	nbBasmCfg = cfgMinSame // -chooser-min-word-size -chooser-force-same-name
	qBasmCfg  = cfgMinWord // -chooser-min-word-size
)

// ---------------------------------------------------------------------------
// bmqsim

type QGate struct {
	Op    string
	Q     []int
	Angle string
}

type QCase struct {
	Qubits int
	Zero   bool
	Gates  []QGate
	Flavor string // seq_hardcoded_real | seq_hardcoded_complex | seq_hardcoded_addtree_complex
}

var realGates1 = []string{"h", "x", "z"}
var cplxGates1 = []string{"y", "s", "t", "v"}
var gates2 = []string{"cx", "cz", "swap"}
var paramGates = []string{"rx", "ry", "rz", "r"}

func genQCase(t *rapid.T) QCase {
	var c QCase
	// the assembler needs 5..30 s for the emitted file of a 2 qubit circuit (4^n data sections, 2^n + … CPs):
	// one qubit mostly, two qubits now and then, three only in the thorough tier
	sizes := []int{1, 1, 1, 1, 2}
	if os.Getenv("VERIF_TIER") == "thorough" {
		sizes = []int{1, 1, 2, 2, 2, 3}
	}
	c.Qubits = pick(t, sizes, "qubits")
	c.Zero = rapid.Bool().Draw(t, "zero")
	c.Flavor = pick(t, []string{"seq_hardcoded_real", "seq_hardcoded_complex", "seq_hardcoded_addtree_complex"}, "flavor")
	real := c.Flavor == "seq_hardcoded_real"
	// the number of gates is the length of every data section and a loop bound in the code: 2^k-1, 2^k, 2^k+1
	n := pick(t, []int{1, 2, 3, 4, 5, 7, 8, 9}, "ngates")
	for i := 0; i < n; i++ {
		var g QGate
		pool := append([]string{}, realGates1...)
		if !real {
			pool = append(append(pool, cplxGates1...), paramGates...)
		}
		if c.Qubits >= 2 {
			pool = append(pool, gates2...)
			pool = append(pool, gates2...)
		}
		g.Op = pick(t, pool, "op")
		a := uni(t, c.Qubits, "qa")
		g.Q = []int{a}
		switch g.Op {
		case "cx", "cz", "swap":
			b := uni(t, c.Qubits-1, "qb")
			if b >= a {
				b++
			}
			g.Q = []int{a, b}
		case "rx", "ry", "rz", "r":
			g.Angle = fmt.Sprintf("%.4f", float64(rapid.IntRange(-31416, 31416).Draw(t, "angle"))/10000)
		}
		c.Gates = append(c.Gates, g)
	}
	return c
}

func (c QCase) program() string {
	var b strings.Builder
	var qs []string
	for i := 0; i < c.Qubits; i++ {
		qs = append(qs, fmt.Sprintf("q%d", i))
	}
	fmt.Fprintf(&b, "%%block code1 .sequential\n        qbits   %s\n", strings.Join(qs, ", "))
	if c.Zero {
		fmt.Fprintf(&b, "        zero    %s\n", strings.Join(qs, ", "))
	}
	for _, g := range c.Gates {
		var args []string
		for _, q := range g.Q {
			args = append(args, fmt.Sprintf("q%d", q))
		}
		if g.Angle != "" {
			args = append(args, g.Angle)
		}
		fmt.Fprintf(&b, "        %s      %s\n", g.Op, strings.Join(args, ", "))
	}
	fmt.Fprintf(&b, "%%endblock\n\n%%meta bmdef global main:code1\n")
	return b.String()
}

// qEmit replicates cmd/bmqsim/bmqsim.go main() for `-build-matrix-seq-hardcoded -hw-flavor F -save-basm`.
// matrices = number of matrices the circuit was compiled to (consecutive gates on disjoint qubits merge).
func qEmit(c QCase) (text string, matrices int, err error) {
	resetRegistries()
	restore := quiet()
	defer restore()
	defer func() {
		if r := recover(); r != nil {
			text, err = "", fmt.Errorf("panic: %v", r)
		}
	}()
	dir, err := os.MkdirTemp(scratchRoot(), "c16-q-")
	if err != nil {
		return "", 0, fmt.Errorf("harness: %v", err)
	}
	defer os.RemoveAll(dir)
	p := filepath.Join(dir, "program.bmq")
	if err := os.WriteFile(p, []byte(c.program()), 0o644); err != nil {
		return "", 0, fmt.Errorf("harness: %v", err)
	}
	bld := new(bmbuilder.BMBuilder)
	sim := new(bmqsim.BmQSimulator)
	bld.BMBuilderInit()
	sim.BmQSimulatorInit()
	if err := bld.ParseBuilderDefault(p); err != nil {
		return "", 0, fmt.Errorf("parse: %s", strings.ReplaceAll(err.Error(), dir, ""))
	}
	bld.UnsetActive("generatorsexec")
	if err := bld.RunBuilder(); err != nil {
		return "", 0, fmt.Errorf("builder: %v", err)
	}
	body, err := bld.ExportBasmBody()
	if err != nil {
		return "", 0, fmt.Errorf("export: %v", err)
	}
	mtx, err := sim.QasmToBmMatrices(body)
	if err != nil {
		return "", 0, fmt.Errorf("matrices: %v", err)
	}
	sim.Mtx = make([]*bmmatrix.BmMatrixSquareComplex, len(mtx))
	copy(sim.Mtx, mtx)
	if err := sim.VerifyConditions(c.Flavor); err != nil {
		return "", len(mtx), fmt.Errorf("flavor not compatible: %v", err)
	}
	s, err := sim.ApplyTemplate(c.Flavor)
	if err != nil {
		return "", len(mtx), err
	}
	return s, len(mtx), nil
}
