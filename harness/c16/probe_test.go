package c16

import (
	"fmt"
	"os"
	"path/filepath"
	"sort"
	"strings"
	"testing"
)

func TestProbeSites(t *testing.T) {
	dir := os.Getenv("C16_PROBE")
	if dir == "" {
		t.Skip()
	}
	fs, _ := filepath.Glob(filepath.Join(dir, "site*.basm"))
	sort.Slice(fs, func(i, j int) bool { return len(fs[i]) < len(fs[j]) || (len(fs[i]) == len(fs[j]) && fs[i] < fs[j]) })
	for _, f := range fs {
		b, _ := os.ReadFile(f)
		line := strings.TrimSpace(strings.Split(string(b), "\n")[4])
		for _, cfg := range []string{cfgNoDyn, cfgDefault} {
			bm, err := assemble([]string{string(b)}, cfg)
			if err != nil {
				fmt.Printf("%-22s %-8s ERR %v\n", line, cfg, err)
				continue
			}
			m := bm.Domains[0]
			ex := unknownExpect()
			cp := unknownCP()
			cp.MaxReg = 9
			ex.CPs = []CPExpect{cp}
			res := "wf-ok"
			if fl := wf(bm, ex); fl != nil {
				res = "WF-FAIL " + fl.Sig + " " + fl.Msg
			}
			fmt.Printf("%-22s %-8s R=%d N=%d M=%d L=%d O=%d %s\n", line, cfg, m.R, m.N, m.M, m.L, m.O, res)
		}
	}
}
