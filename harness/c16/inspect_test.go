package c16

// Triage aid: C16_SRC=<file.basm>[,<file2>…] [C16_CFG=nodyn] go test ./c16 -run TestInspect -v
// prints the machine the assembler emits (architecture line, opcode list, ROM with disassembly) and wf's verdict.

import (
	"fmt"
	"os"
	"strings"
	"testing"

	"github.com/BondMachineHQ/BondMachine/pkg/bondmachine"
)

func dumpMachine(bm *bondmachine.Bondmachine) string {
	var b strings.Builder
	fmt.Fprintf(&b, "BM Rsize=%d inputs=%d outputs=%d processors=%v links=%v\n", bm.Rsize, bm.Inputs, bm.Outputs, bm.Processors, bm.Links)
	for d, m := range bm.Domains {
		fmt.Fprintf(&b, " domain %d: %s\n  ops:", d, archLine(m))
		for _, o := range m.Op {
			fmt.Fprintf(&b, " %s", o.Op_get_name())
		}
		b.WriteString("\n")
		if len(m.Op) == 0 {
			continue
		}
		ob := bitsFor(len(m.Op))
		for a, w := range m.Slocs {
			line := "?"
			if len(w) >= ob {
				var id int
				fmt.Sscanf(w[:ob], "%b", &id)
				if id < len(m.Op) {
					t, err := disasm(m, m.Op[id], w[ob:])
					line = m.Op[id].Op_get_name() + " " + t
					if err != nil {
						line += " !" + err.Error()
					}
				}
			}
			fmt.Fprintf(&b, "  %3d %s  %s\n", a, w, line)
		}
		for a, w := range m.Vars {
			fmt.Fprintf(&b, "  d%2d %s\n", a, w)
		}
	}
	return b.String()
}

func TestInspect(t *testing.T) {
	files := os.Getenv("C16_SRC")
	if files == "" {
		t.Skip("C16_SRC not set")
	}
	var srcs []string
	for _, f := range strings.Split(files, ",") {
		b, err := os.ReadFile(f)
		if err != nil {
			t.Fatal(err)
		}
		srcs = append(srcs, string(b))
	}
	cfg := os.Getenv("C16_CFG")
	if cfg == "" {
		cfg = cfgNoDyn
	}
	bm, err := assemble(srcs, cfg)
	if err != nil {
		fmt.Printf("ASSEMBLER ERROR: %v\n", err)
		return
	}
	fmt.Print(dumpMachine(bm))
	if f := wf(bm, unknownExpect()); f != nil {
		fmt.Printf("WF FAIL sig=%s: %s\n", f.Sig, f.Msg)
	} else {
		fmt.Println("WF ok (intrinsic checks only)")
	}
}
