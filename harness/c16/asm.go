// Package c16 — every machine a front-end emits is well formed.
//
// asm.go: the in-process replica of what cmd/basm does with .basm sources (cmd/basm/main.go:
// new BasmInstance, BMinfo, BasmInstanceInit(nil), switches, ParseAssembly…Default per file,
// RunAssembler, Assembler2BondMachine, GetBondMachine). Copied from harness/c05/asm.go (switch
// sets, registry reset, quiet, closeReqs) and harness/c07/inproc.go (several files, flag names);
// those live in packages whose identifiers are unexported.
package c16

import (
	"fmt"
	"io"
	"log"
	"os"
	"reflect"
	"runtime/debug"
	"strings"
	"sync"
	"unsafe"

	"github.com/BondMachineHQ/BondMachine/pkg/basm"
	"github.com/BondMachineHQ/BondMachine/pkg/bmconfig"
	"github.com/BondMachineHQ/BondMachine/pkg/bminfo"
	"github.com/BondMachineHQ/BondMachine/pkg/bmnumbers"
	"github.com/BondMachineHQ/BondMachine/pkg/bmreqs"
	"github.com/BondMachineHQ/BondMachine/pkg/bondmachine"
	"github.com/BondMachineHQ/BondMachine/pkg/procbuilder"
)

// Configurations of the assembler: the switches of cmd/basm that change what a source is turned into.
const (
	cfgDefault = "default" // no switch
	cfgNoDyn   = "nodyn"   // -disable-dynamical-matching
	cfgMinWord = "minword" // -chooser-min-word-size
	cfgMinSame = "minsame" // -chooser-min-word-size -chooser-force-same-name
)

var allCfgs = []string{cfgDefault, cfgNoDyn, cfgMinWord, cfgMinSame}

var (
	regOnce     sync.Once
	staticOps   []procbuilder.Opcode
	staticTypes []bmnumbers.BMNumberType
	staticMatch map[string]bmnumbers.ImportFunc
	devNull     *os.File
)

// The opcode and number-type registries are process-wide and grow when a dynamical instruction or type is
// created (rsets5, fps16f3, …); a CLI process assembles one program, so every case starts from the
// registries of a fresh process (README rule 1).
func snapshotRegistries() {
	regOnce.Do(func() {
		staticOps = append([]procbuilder.Opcode(nil), procbuilder.Allopcodes...)
		staticTypes = append([]bmnumbers.BMNumberType(nil), bmnumbers.AllTypes...)
		staticMatch = map[string]bmnumbers.ImportFunc{}
		for k, v := range bmnumbers.AllMatchers {
			staticMatch[k] = v
		}
		devNull, _ = os.OpenFile(os.DevNull, os.O_WRONLY, 0)
	})
}

func resetRegistries() {
	snapshotRegistries()
	procbuilder.Allopcodes = append([]procbuilder.Opcode(nil), staticOps...)
	bmnumbers.AllTypes = append([]bmnumbers.BMNumberType(nil), staticTypes...)
	m := map[string]bmnumbers.ImportFunc{}
	for k, v := range staticMatch {
		m[k] = v
	}
	bmnumbers.AllMatchers = m
}

// quiet points stdout and the log package at /dev/null while the code under test runs (the assembler
// prints its warnings with fmt.Println / log.Println).
func quiet() func() {
	snapshotRegistries()
	if devNull == nil || os.Getenv("C16_VERBOSE") != "" {
		return func() {}
	}
	oldOut, oldLog := os.Stdout, log.Writer()
	os.Stdout = devNull
	log.SetOutput(io.Discard)
	return func() {
		os.Stdout = oldOut
		log.SetOutput(oldLog)
	}
}

// closeReqs stops the bmreqs server goroutine of a BasmInstance (field rg, no exported way to reach it).
func closeReqs(bi *basm.BasmInstance) {
	f := reflect.ValueOf(bi).Elem().FieldByName("rg")
	if !f.IsValid() || f.Kind() != reflect.Ptr || f.IsNil() {
		return
	}
	if f.Type() != reflect.TypeOf((*bmreqs.ReqRoot)(nil)) {
		return
	}
	rg := *(**bmreqs.ReqRoot)(unsafe.Pointer(f.UnsafeAddr()))
	rg.Close()
}

type asmError struct {
	Phase string // parse | passes | create | <phase>-panic
	Err   error
	Where string // for a panic: innermost frame of the repository
}

func (e *asmError) Error() string {
	if e.Where != "" {
		return e.Phase + ": " + e.Err.Error() + " @" + e.Where
	}
	return e.Phase + ": " + e.Err.Error()
}

func (e *asmError) isPanic() bool { return strings.HasSuffix(e.Phase, "-panic") }

// assemble runs the CLI sequence on the source texts (in argument order). A panic of the assembler is
// returned as an asmError with phase "<phase>-panic".
func assemble(srcs []string, cfg string) (bm *bondmachine.Bondmachine, aerr *asmError) {
	restore := quiet()
	defer restore()
	resetRegistries()
	defer resetRegistries()
	bi := new(basm.BasmInstance)
	bi.BMinfo = new(bminfo.BMinfo)
	bi.BasmInstanceInit(nil)
	defer closeReqs(bi)
	switch cfg {
	case cfgNoDyn:
		bi.Activate(bmconfig.DisableDynamicalMatching)
	case cfgMinWord:
		bi.Activate(bmconfig.ChooserMinWordSize)
	case cfgMinSame:
		bi.Activate(bmconfig.ChooserMinWordSize)
		bi.Activate(bmconfig.ChooserForceSameName)
	}
	phase := "parse"
	defer func() {
		if r := recover(); r != nil {
			bm = nil
			aerr = &asmError{Phase: phase + "-panic", Err: fmt.Errorf("%v", r), Where: panicSite(string(debug.Stack()))}
		}
	}()
	for _, s := range srcs {
		if err := bi.ParseAssemblyStringDefault(s); err != nil {
			return nil, &asmError{Phase: "parse", Err: err}
		}
	}
	phase = "passes"
	if err := bi.RunAssembler(); err != nil {
		return nil, &asmError{Phase: "passes", Err: err}
	}
	phase = "create"
	if err := bi.Assembler2BondMachine(); err != nil {
		return nil, &asmError{Phase: "create", Err: err}
	}
	bm = bi.GetBondMachine()
	if bm == nil {
		return nil, &asmError{Phase: "create", Err: fmt.Errorf("GetBondMachine returned nil")}
	}
	return bm, nil
}

// panicSite extracts the innermost frame of the repository from a stack dump ("procbuilder.(*Arch).Assembler").
func panicSite(stack string) string {
	for _, l := range strings.Split(stack, "\n") {
		if i := strings.Index(l, "BondMachineHQ/BondMachine/pkg/"); i >= 0 && !strings.HasPrefix(l, "\t") {
			f := l[i+len("BondMachineHQ/BondMachine/pkg/"):]
			if j := strings.LastIndexByte(f, '('); j > 0 {
				f = f[:j]
			}
			return f
		}
	}
	return ""
}

// errClass maps an assembler error to a short stable class for the label histogram.
func errClass(e *asmError) string {
	s := e.Err.Error()
	switch {
	case e.isPanic():
		return "panic"
	case strings.Contains(s, "operand out of range"):
		return "operand-out-of-range"
	case strings.Contains(s, "Unknown register"):
		return "unknown-register"
	case strings.Contains(s, "Unknown input") || strings.Contains(s, "Unknown output"):
		return "unknown-port"
	case strings.Contains(s, "a criteria is needed"):
		return "criteria-needed"
	case strings.Contains(s, "Wrong arguments number"):
		return "wrong-arguments"
	case strings.Contains(s, "ymbol"):
		return "symbol"
	case strings.Contains(s, "Unknown Opcode"):
		return "unknown-opcode"
	}
	w := strings.Fields(s)
	if len(w) > 3 {
		w = w[:3]
	}
	return e.Phase + ":" + strings.Join(w, "-")
}
