// C16 — every machine a front-end emits is well formed.
//
// Entries (all judged by the validator wf() of wf.go, written from the statement):
//
//	TestProps/basm_sources    .basm sources with operands at the powers of two, all CLI switch sets, in process
//	                          (Harvard processors and hybrid ones with ROM + RAM code)
//	TestProps/basm_fragments  fragment graphs x partitions (harness/c06's case type), in process
//	TestProps/neuralbond      layered nets -> neuralbond -> basm (+ neuron library), in process
//	TestProps/bmqsim          circuits -> bmqsim -save-basm flavours -> basm, in process
//	TestProps/bondgo          Go-subset programs (harness/c12's generator) through the bondgo CLI, machine JSON loaded back
//	TestProps/unfittable      sources with one operand that cannot fit (basm in process, bondgo CLI); oracle: rejection
//	TestInspect               triage aid (inspect_test.go)
//
// Recorded mechanisms are read from /verif/known_findings.json (property C16, status open): a case that falls in
// an open mechanism by construction is counted as excluded; with status fixed (or no entry) it is judged.
package c16

import (
	"encoding/json"
	"fmt"
	"os"
	"path/filepath"
	"regexp"
	"runtime/debug"
	"sort"
	"strconv"
	"strings"
	"sync"
	"testing"

	"github.com/BondMachineHQ/BondMachine/pkg/bondmachine"
	"github.com/BondMachineHQ/BondMachine/pkg/procbuilder"
	"pgregory.net/rapid"
	"verifharness/c12"
	"verifharness/pbt"
)

// The assembler compiles some hundred regular expressions per source line; with the default GC target a third of
// the run is collector work. Not a correctness knob.
func init() { debug.SetGCPercent(400) }

// ---------------------------------------------------------------------------
// recorded findings

// Signatures of the mechanisms found on the unchanged repository (see the report / known_findings.json).
const (
	// `romsize:`/`ramsize:` are turned into a word count with `2 ^ val` (XOR, creatorbm.go:642,668); the count is only
	// used together with a data section (creatorbm.go:733,756): the ROM is sized for (2 XOR val)+data words while the
	// code is assembled (the line buffer of Arch.Assembler, arch.go:265,285, overflows: panic), the RAM ends up with
	// Needed_bits((2 XOR val)+data) address bits instead of the val the user asked for
	sigOverrideXor = "D-C16-size-override-xor"
	// with `romsize:` and a `romdata:` section O is set twice: when the processor is created (creatorbm.go:733, from the
	// XOR'ed romsize) and again AFTER the program has been assembled (creatorbm.go:247 then :277, from code+data): the ROM
	// words are laid out for the first O, the machine carries the second (jump fields decode to other addresses)
	sigRomResized = "D-C16-rom-resized-after-assembly"
	// a program longer than the ROM the user declared (romsize) overruns the line buffer of Arch.Assembler
	// (arch.go:285): panic instead of an error
	sigRomOverflow = "D-C16-rom-overflow-panics"
	// jgt0f and tsp take a register but their HLAssemblerNormalize records no `registers` requirement
	// (op_jgt0f.go:212-218, op_tsp.go:289-295): a register mentioned only there is not counted, the register file
	// inferred from the program is too small and the program is refused ("Unknown register name")
	sigMissingRegReq = "D-C16-register-requirement-missing:jgt0f-tsp"
	// bondgo prints the assembler's error, saves the machine with an empty ROM and exits 0 (converter.go:52-58)
	sigBondgoSwallow = "D-C16-bondgo-swallows-assembler-error"
)

var (
	knownOnce sync.Once
	openSigs  map[string]bool
)

func knownPath() string {
	if p := os.Getenv("VERIF_KNOWN"); p != "" {
		return p
	}
	root := os.Getenv("VERIF_ROOT")
	if root == "" {
		root = "/verif"
	}
	return filepath.Join(root, "known_findings.json")
}

func isOpen(sig string) bool {
	knownOnce.Do(func() {
		openSigs = map[string]bool{}
		raw, err := os.ReadFile(knownPath())
		if err != nil {
			return
		}
		var f struct {
			Findings []struct {
				Property string `json:"property"`
				Sig      string `json:"sig"`
				Status   string `json:"status"`
			} `json:"findings"`
		}
		if json.Unmarshal(raw, &f) != nil {
			return
		}
		for _, k := range f.Findings {
			if k.Property == "C16" && k.Status == "open" {
				openSigs[k.Sig] = true
			}
		}
	})
	return openSigs[sig]
}

// excluded returns the first open mechanism of the list ("" = judge the case).
func excluded(probe bool, mechs []string) string {
	if probe {
		return ""
	}
	for _, m := range mechs {
		if isOpen(m) {
			return m
		}
	}
	return ""
}

func addLabels(dst []string, more ...string) []string {
	seen := map[string]bool{}
	for _, l := range dst {
		seen[l] = true
	}
	for _, l := range more {
		if l != "" && !seen[l] {
			seen[l] = true
			dst = append(dst, l)
		}
	}
	sort.Strings(dst)
	return dst
}

// machineKinds lists the boundary kinds the PROGRAMS of an emitted machine touch (front-ends whose source does
// not name registers and ports itself): ROM length, highest register / port index the ROM mentions.
func machineKinds(bm *bondmachine.Bondmachine) []string {
	set := map[string]bool{}
	for _, d := range bm.Processors {
		if d < 0 || d >= len(bm.Domains) {
			continue
		}
		m := bm.Domains[d]
		if k := boundaryKind(len(m.Slocs) + len(m.Vars)); k != "" {
			set["rom:"+k] = true
		}
		men := mentions(m)
		if k := boundaryKind(men.maxReg); k != "" {
			set["reg:"+k] = true
		}
		if k := boundaryKind(men.maxIn); k != "" {
			set["in:"+k] = true
		}
		if k := boundaryKind(men.maxOut); k != "" {
			set["out:"+k] = true
		}
		if k := boundaryKind(len(m.Op)); k != "" {
			set["ops:"+k] = true
		}
	}
	return sortedSet(set)
}

// mentions decodes the ROM (best effort, for labels only).
func mentions(m *procbuilder.Machine) mention {
	men := mention{-1, -1, -1, -1, -1}
	if len(m.Op) == 0 {
		return men
	}
	ob := bitsFor(len(m.Op))
	for _, w := range m.Slocs {
		if len(w) < ob || strings.Trim(w, "01") != "" {
			continue
		}
		id, _ := strconv.ParseInt(w[:ob], 2, 32)
		if int(id) >= len(m.Op) || m.Op[id] == nil {
			continue
		}
		text, err := disasm(m, m.Op[id], w[ob:])
		if err != nil {
			continue
		}
		scanTokens(text, &men)
	}
	return men
}

func scanTokens(text string, men *mention) {
	for _, tok := range strings.FieldsFunc(text, func(r rune) bool { return r == ' ' || r == ',' || r == '\t' || r == '[' || r == ']' }) {
		var p *int
		var sm []string
		if sm = reReg.FindStringSubmatch(tok); sm != nil {
			p = &men.maxReg
		} else if sm = reIn.FindStringSubmatch(tok); sm != nil {
			p = &men.maxIn
		} else if sm = reOut.FindStringSubmatch(tok); sm != nil {
			p = &men.maxOut
		}
		if p != nil {
			if k, err := strconv.Atoi(sm[1]); err == nil && k > *p {
				*p = k
			}
		}
	}
}

// ---------------------------------------------------------------------------
// basm_sources

func basmMechs(c BasmCase) []string {
	set := map[string]bool{}
	for _, cp := range c.Exp.CPs {
		if cp.RomSize >= 0 && cp.Data > 0 {
			set[sigOverrideXor] = true
			set[sigRomResized] = true
		}
		if cp.RamSize >= 0 && cp.RamData > 0 {
			set[sigOverrideXor] = true
		}
	}
	for _, st := range c.Sites {
		if st == "site:jgt0f.reg" || st == "site:tsp.reg" {
			set[sigMissingRegReq] = true
		}
	}
	return sortedSet(set)
}

// A source of basm_sources fits by construction. A refusal of one of these classes says that the architecture
// inferred from the program does not hold the program (the assembler's own late check noticed): the adequacy the
// statement is about is violated although nothing was emitted.
var inadequacyClasses = map[string]bool{"unknown-register": true, "unknown-port": true, "operand-out-of-range": true, "create:no-code-section": true}

func has(xs []string, x string) bool {
	for _, y := range xs {
		if y == x {
			return true
		}
	}
	return false
}

func propBasm(c BasmCase) pbt.Outcome {
	out := pbt.Outcome{Labels: addLabels(nil, "cfg="+c.Cfg)}
	out.Labels = addLabels(out.Labels, c.Kinds...)
	out.Labels = addLabels(out.Labels, c.Sites...)
	mechs := basmMechs(c)
	if x := excluded(c.Probe, mechs); x != "" {
		out.Excluded = x
		return out
	}
	bm, aerr := assemble([]string{c.Src}, c.Cfg)
	if aerr != nil {
		if aerr.isPanic() {
			sig := "panic:" + aerr.Where
			if has(mechs, sigOverrideXor) && aerr.Where == "procbuilder.(*Arch).Assembler" {
				sig = sigOverrideXor
			}
			out.Fail = pbt.Failf(sig, "the assembler panics on a source that fits: %v\n%s", aerr, c.Src)
			return out
		}
		cl := errClass(aerr)
		out.Labels = addLabels(out.Labels, "rejected:"+cl)
		if os.Getenv("C16_SHOWREJ") != "" {
			fmt.Printf("REJECTED cfg=%s %v\n%s\n", c.Cfg, aerr, c.Src)
		}
		if inadequacyClasses[cl] {
			sig := "inadequate:" + cl
			switch {
			case has(mechs, sigMissingRegReq):
				sig = sigMissingRegReq
			case has(mechs, sigOverrideXor):
				sig = sigOverrideXor // a static address beyond the shrunk RAM / ROM
			}
			out.Fail = pbt.Failf(sig, "a source that fits is refused because the architecture inferred from it does not hold it: %v\n%s", aerr, c.Src)
		}
		return out
	}
	out.Labels = addLabels(out.Labels, "accepted")
	if f := wf(bm, c.Exp); f != nil {
		switch {
		case has(mechs, sigRomResized): // romsize + romdata: whatever disagrees, the words and the final O were made apart
			f.Msg = "(" + f.Sig + ") " + f.Msg
			f.Sig = sigRomResized
		case has(mechs, sigOverrideXor) && f.Sig == "wf:override":
			f.Sig = sigOverrideXor
		}
		f.Msg += "\n" + c.Src + dumpMachine(bm)
		out.Fail = f
		return out
	}
	for _, k := range c.Kinds {
		if strings.Contains(k, "2^") {
			out.NonTrivial = true
		}
	}
	return out
}

// ---------------------------------------------------------------------------
// basm_fragments

func propFrag(c FragCase) pbt.Outcome {
	g := &c.G
	out := pbt.Outcome{}
	if len(g.Insts) == 0 || len(g.Parts) == 0 {
		out.Excluded = "malformed"
		return out
	}
	accepted := 0
	for pi, part := range g.Parts {
		src := g.Source(part)
		bm, aerr := assemble([]string{src}, cfgDefault)
		if aerr != nil {
			if aerr.isPanic() {
				out.Fail = pbt.Failf("panic:"+aerr.Where, "partition %d %v: the assembler panics: %v\n%s", pi, part, aerr, src)
				return out
			}
			cl := errClass(aerr)
			out.Labels = addLabels(out.Labels, "rejected:"+cl)
			if inadequacyClasses[cl] {
				// the fragment composer wrote this program itself: a refusal of this class means the inferred sizes do not hold it
				out.Fail = pbt.Failf("inadequate:"+cl, "partition %d %v: the composed program is refused because the architecture inferred from it does not hold it: %v\n%s", pi, part, aerr, src)
				return out
			}
			continue
		}
		accepted++
		ex := unknownExpect()
		ex.Rsize = g.Rsize
		ex.Procs = len(part)
		ex.Inputs = len(g.Inputs)
		ex.Outputs = len(g.ExtOut)
		n, m := fragPorts(g, part)
		// processors are numbered in the byte order of their names cp0, cp1, …, cp10 (templateresolver.go:21)
		names := make([]string, len(part))
		for i := range part {
			names[i] = fmt.Sprintf("cp%d", i)
		}
		order := seqInts(len(part))
		sort.Slice(order, func(a, b int) bool { return names[order[a]] < names[order[b]] })
		ex.CPs = make([]CPExpect, len(part))
		for r, i := range order {
			cp := unknownCP()
			cp.MaxIn, cp.MaxOut = n[i]-1, m[i]-1
			ex.CPs[r] = cp
			if k := boundaryKind(n[i]); k != "" {
				out.Labels = addLabels(out.Labels, "N:"+k)
			}
			if k := boundaryKind(m[i]); k != "" {
				out.Labels = addLabels(out.Labels, "M:"+k)
			}
		}
		if f := wf(bm, ex); f != nil {
			f.Msg = fmt.Sprintf("partition %d %v: %s\n%s%s", pi, part, f.Msg, src, dumpMachine(bm))
			out.Fail = f
			return out
		}
		// the processors have exactly the ports the graph gives them
		for r, i := range order {
			d := bm.Domains[bm.Processors[r]]
			if int(d.N) != n[i] || int(d.M) != m[i] {
				out.Fail = pbt.Failf("wf:ports", "partition %d %v: processor %d (cp%d) has N=%d M=%d, the graph gives it %d inputs and %d outputs\n%s%s", pi, part, r, i, d.N, d.M, n[i], m[i], src, dumpMachine(bm))
				return out
			}
		}
		ks := machineKinds(bm)
		out.Labels = addLabels(out.Labels, ks...)
		if len(ks) > 0 {
			out.NonTrivial = true
		}
	}
	out.Labels = addLabels(out.Labels, fmt.Sprintf("parts=%d", len(g.Parts)), fmt.Sprintf("insts=%d", len(g.Insts)))
	if accepted > 0 {
		out.Labels = addLabels(out.Labels, "accepted")
	}
	return out
}

// ---------------------------------------------------------------------------
// neuralbond, bmqsim

var reCpdef = regexp.MustCompile(`(?m)^%meta\s+cpdef\s+\S+`)

func propNB(c NBCase) pbt.Outcome {
	out := pbt.Outcome{Labels: addLabels(nil, "mode="+c.Mode, "io="+c.IOMode, "type="+c.DataType)}
	if k := boundaryKind(c.fanIn()); k != "" {
		out.Labels = addLabels(out.Labels, "fanin:"+k)
	}
	text, err := nbEmit(c)
	if err != nil {
		if strings.HasPrefix(err.Error(), "panic:") {
			out.Fail = pbt.Failf("panic:neuralbond", "neuralbond panics: %v\n%s", err, c.netJSON())
			return out
		}
		out.Labels = addLabels(out.Labels, "neuralbond-rejected")
		return out
	}
	srcs := append([]string{text}, neuronLibSources(c.Mode)...)
	bm, aerr := assemble(srcs, nbBasmCfg)
	if aerr != nil {
		if aerr.isPanic() {
			out.Fail = pbt.Failf("panic:"+aerr.Where, "basm panics on neuralbond's file: %v\n%s", aerr, text)
			return out
		}
		out.Labels = addLabels(out.Labels, "rejected:"+errClass(aerr))
		if os.Getenv("C16_SHOWREJ") != "" {
			fmt.Printf("REJECTED neuralbond %+v: %v\n%s\n", c.Sizes, aerr, text)
		}
		return out
	}
	out.Labels = addLabels(out.Labels, "accepted")
	ex := unknownExpect()
	ex.Rsize = c.RegSize
	ex.Procs = len(reCpdef.FindAllString(text, -1))
	ex.Inputs = c.Sizes[0]
	ex.Outputs = c.Sizes[len(c.Sizes)-1]
	if f := wf(bm, ex); f != nil {
		f.Msg += "\n" + text + dumpMachine(bm)
		out.Fail = f
		return out
	}
	ks := machineKinds(bm)
	out.Labels = addLabels(out.Labels, ks...)
	out.NonTrivial = len(ks) > 0
	return out
}

func propQ(c QCase) pbt.Outcome {
	out := pbt.Outcome{Labels: addLabels(nil, "flavor="+c.Flavor, fmt.Sprintf("qubits=%d", c.Qubits))}
	text, matrices, err := qEmit(c)
	if k := boundaryKind(matrices); k != "" {
		out.Labels = addLabels(out.Labels, "matrices:"+k)
	}
	if err != nil {
		if strings.HasPrefix(err.Error(), "panic:") {
			out.Fail = pbt.Failf("panic:bmqsim", "bmqsim panics: %v\n%s", err, c.program())
			return out
		}
		out.Labels = addLabels(out.Labels, "bmqsim-rejected")
		return out
	}
	bm, aerr := assemble([]string{text}, qBasmCfg)
	if aerr != nil {
		if aerr.isPanic() {
			out.Fail = pbt.Failf("panic:"+aerr.Where, "basm panics on bmqsim's file: %v\n%s", aerr, text)
			return out
		}
		out.Labels = addLabels(out.Labels, "rejected:"+errClass(aerr))
		return out
	}
	out.Labels = addLabels(out.Labels, "accepted")
	ex := unknownExpect()
	ex.Procs = len(reCpdef.FindAllString(text, -1))
	if f := wf(bm, ex); f != nil {
		f.Msg += "\n" + c.program() + dumpMachine(bm)
		out.Fail = f
		return out
	}
	ks := machineKinds(bm)
	out.Labels = addLabels(out.Labels, ks...)
	out.NonTrivial = len(ks) > 0
	return out
}

// ---------------------------------------------------------------------------
// bondgo

type GoCase struct {
	Src   string
	Rsize int // -register-size; the program is written in uint<Rsize> for 8/16/32, in uint8 for the other sizes
	Mpm   bool
	Probe bool
}

// Register sizes the compiler has no Go type for: it says "The specified register_size is not usable, defaulting to
// 8" and compiles the (uint8) program, but keeps the size of the flag for the machine it builds. Whatever it picks,
// the machine and its processors have to agree.
var oddRsizes = []int{12, 24, 10, 20, 48}

func stdRsize(r int) bool { return r == 8 || r == 16 || r == 32 || r == 64 }

func genGoCase(t *rapid.T) GoCase {
	var c GoCase
	c.Rsize = rapid.SampledFrom([]int{8, 8, 16, 32}).Draw(t, "rsize")
	odd := rapid.IntRange(0, 3).Draw(t, "oddrsize") == 0
	if odd {
		c.Rsize = 8
	}
	c.Src, c.Mpm = c12.GenProgram(t, c12.GenOpts{Faithful: rapid.Bool().Draw(t, "faithful")}, c.Rsize)
	if !c.Mpm && (odd || rapid.Bool().Draw(t, "forcempm")) {
		c.Mpm = true // -mpm -save-bondmachine also for programs without goroutines: the whole machine is saved
	}
	if odd {
		c.Rsize = rapid.SampledFrom(oddRsizes).Draw(t, "oddsize")
	}
	return c
}

// asmExpect reads the per-processor assembly bondgo saved (-save-assembly): what the ROM has to hold.
func asmExpect(asm string) CPExpect {
	cp := unknownCP()
	men := mention{-1, -1, -1, -1, -1}
	n := 0
	for _, l := range strings.Split(asm, "\n") {
		l = strings.TrimSpace(l)
		if l == "" || strings.HasPrefix(l, "#") {
			continue
		}
		n++
		f := strings.Fields(l)
		scanTokens(strings.Join(f[1:], " "), &men)
	}
	cp.Instr = n
	cp.MaxReg, cp.MaxIn, cp.MaxOut = men.maxReg, men.maxIn, men.maxOut
	return cp
}

var reValueGo = regexp.MustCompile(`(?m)^\s*go\s+\w+\(\s*[0-9]`)

// goMechs: program shapes that make bondgo's own assembler fail (the failure is swallowed, sigBondgoSwallow).
func goMechs(src string) []string {
	if reValueGo.MatchString(src) {
		return []string{sigBondgoSwallow} // `go f(5)`: chw without operand (C12 D-C12-go-value-arg-empty-rom)
	}
	return nil
}

// judgeBondgo runs the compiler and validates what it saved. inMech: the program is, by construction, one whose
// assembly bondgo's own assembler refuses (the recorded swallow mechanism); for any other program a swallowed
// assembler error means that the machine bondgo inferred does not hold the program it compiled.
func judgeBondgo(src string, rsize int, mpm bool, inMech bool, unfit bool) (out pbt.Outcome) {
	if os.Getenv("VERIF_TOOLS") == "" {
		out.Excluded = "no-tools"
		return
	}
	r := c12.RunBondgo(src, rsize, mpm, c12.Plan{GoMaxProcs: 2})
	out.Labels = addLabels(out.Labels, "bondgo="+r.Status, fmt.Sprintf("mpm=%v", mpm))
	if !stdRsize(rsize) {
		out.Labels = addLabels(out.Labels, "rsize=odd")
	}
	switch r.Status {
	case "harness-error":
		out.Excluded = "harness-error"
		return
	case "rejected", "crash":
		if r.Status == "crash" && os.Getenv("C16_SHOWREJ") != "" {
			fmt.Printf("BONDGO-CRASH rsize=%d mpm=%v exit=%d\n%s\n%s\n----\n%s\n", rsize, mpm, r.Exit, clipTail(r.Stdout, 600), clipTail(r.Stderr, 1500), src)
		}
		// nothing emitted: a rejection (a crash of the compiler is C12's subject)
		if r.Machine != nil {
			out.Fail = pbt.Failf("emitted-on-"+r.Status, "bondgo status %s and a machine file was written\n%s", r.Status, src)
		}
		return
	case "ok":
	default: // hang, deadlock: C12's subject
		out.Excluded = "bondgo-" + r.Status
		return
	}
	if r.Machine == nil {
		out.Labels = addLabels(out.Labels, "no-machine")
		return
	}
	ld, err := c12.LoadMachine(r.Machine, mpm)
	if err != nil {
		out.Fail = pbt.Failf("wf:load", "the saved machine does not load: %v\n%s", err, src)
		return
	}
	swallowed := strings.Contains(r.Stdout, "error processing") || strings.Contains(r.Stdout, "Unknown Opcode")
	var f *pbt.Failure
	var kinds []string
	if mpm {
		ex := unknownExpect()
		if stdRsize(rsize) {
			ex.Rsize = rsize // an odd size: the compiler may fall back to 8 or keep the flag, coherently
		}
		ex.Procs = len(r.Asm)
		for _, k := range sortedIntKeys(r.Asm) {
			if k == len(ex.CPs) {
				ex.CPs = append(ex.CPs, asmExpect(r.Asm[k]))
			}
		}
		f = wf(ld.BM, ex)
		kinds = machineKinds(ld.BM)
	} else {
		cp := asmExpect(r.Asm[0])
		m := ld.Procs[0].Mach
		want := uint8(rsize)
		if !stdRsize(rsize) {
			want = m.Rsize // no enclosing machine to agree with
		}
		f = wfCP("p0", m, want, &cp)
		bm := &bondmachine.Bondmachine{Rsize: want, Domains: []*procbuilder.Machine{m}, Processors: []int{0}}
		kinds = machineKinds(bm)
	}
	if f != nil {
		if swallowed {
			if inMech {
				f.Sig = sigBondgoSwallow
			} else {
				f.Sig = "bondgo-inadequate:" + f.Sig
			}
			f.Msg = "bondgo printed an assembler error, saved the machine all the same and exited 0: " + firstErrLine(r.Stdout) + "; " + f.Msg
		}
		f.Msg += "\n" + src
		out.Fail = f
		return
	}
	if unfit {
		out.Fail = pbt.Failf("unfit:emitted", "bondgo emitted a machine for a source with an operand that cannot fit\n%s", src)
		return
	}
	out.Labels = addLabels(out.Labels, "accepted")
	out.Labels = addLabels(out.Labels, kinds...)
	out.NonTrivial = len(kinds) > 0
	return
}

func clipTail(s string, n int) string {
	if len(s) > n {
		return s[:n] + "…"
	}
	return s
}

func firstErrLine(s string) string {
	for _, l := range strings.Split(s, "\n") {
		if strings.Contains(l, "error processing") || strings.Contains(l, "Unknown Opcode") {
			return strings.TrimSpace(l)
		}
	}
	return ""
}

func sortedIntKeys(m map[int]string) []int {
	var ks []int
	for k := range m {
		ks = append(ks, k)
	}
	sort.Ints(ks)
	return ks
}

func propGo(c GoCase) pbt.Outcome {
	if x := excluded(c.Probe, goMechs(c.Src)); x != "" {
		return pbt.Outcome{Excluded: x}
	}
	return judgeBondgo(c.Src, c.Rsize, c.Mpm, len(goMechs(c.Src)) > 0, false)
}

// ---------------------------------------------------------------------------
// unfittable

func unfitMechs(c UnfitCase) []string {
	switch {
	case c.Tool == "bondgo":
		return []string{sigBondgoSwallow}
	case c.Kind == "romsize-small":
		return []string{sigRomOverflow}
	}
	return nil
}

func propUnfit(c UnfitCase) pbt.Outcome {
	out := pbt.Outcome{Labels: []string{"tool=" + c.Tool, "kind=" + c.Kind}}
	if x := excluded(c.Probe, unfitMechs(c)); x != "" {
		out.Excluded = x
		return out
	}
	if c.Tool == "bondgo" {
		o := judgeBondgo(c.Src, c.Rsize, c.Mpm, true, true)
		o.Labels = addLabels(o.Labels, out.Labels...)
		if o.Fail == nil && o.Excluded == "" {
			o.NonTrivial = true
		}
		return o
	}
	out.Labels = addLabels(out.Labels, "cfg="+c.Cfg)
	bm, aerr := assemble([]string{c.Src}, c.Cfg)
	switch {
	case aerr == nil:
		// emitted: the statement wants a rejection
		f := wf(bm, unknownExpect())
		detail := "the emitted machine passes the intrinsic checks"
		if f != nil {
			detail = "and the emitted machine is not well formed: " + f.Msg
		}
		out.Fail = pbt.Failf("unfit:emitted:"+strings.SplitN(c.Kind, ":", 2)[0], "a source with an operand that cannot fit (%s) was assembled instead of rejected; %s\n%s%s", c.Kind, detail, c.Src, dumpMachine(bm))
	case aerr.isPanic():
		sig := "unfit:panic:" + aerr.Where
		if c.Kind == "romsize-small" {
			sig = sigRomOverflow
		}
		out.Fail = pbt.Failf(sig, "a source with an operand that cannot fit (%s) makes the assembler panic instead of returning an error: %v\n%s", c.Kind, aerr, c.Src)
	default:
		out.Labels = addLabels(out.Labels, "rejected:"+errClass(aerr))
		out.NonTrivial = true
	}
	return out
}

// ---------------------------------------------------------------------------

var Props = []*pbt.Entry{
	pbt.Def("basm_sources",
		"1..3 processors (now and then two on one section), one .romtext section each, optional .romdata/.ramdata sections, romsize:/ramsize: overrides >= the need, an optional queue + stack attached as shared objects, one processor in five hybrid (cpdef romcode: S, ramcode: S_ram, execmode: hy; the .ramtext section of 2..17 explicit instructions shares j/jz/rset/… with the ROM code, uses sub/div/cmpr/… of its own and may name a higher register or port than the ROM code: judged are the opcode list = sorted duplicate-free union holding every opcode of the RAM code, R/N/M/2^L holding what the RAM code names, the mode; the machine JSON carries the ROM words only, RAM images travel in the BCOF file), register size 8/16/32 (rarely 12/24/64), switch sets default/nodyn/minword/minsame; per processor a top register r(2^k-1|2^k|2^k+1), k=1..5 (rarely r127/r128/r255/r256) mentioned at ONE operand position of one of 69 instruction forms, input/output port sets with a power-of-two top index and gaps, literals 2^Rsize-1 and 31/32/63/64/127/128, ROM length (or code+data) 2^k-1|2^k|2^k+1 (k=2..6), a jump to the last address, static RAM addresses at the last cell, ROM/RAM data symbols; ports wired between processors / to the machine / left unattached; oracle wf() with the per-processor mentions recorded by the generator (register, ports, jump, RAM address, instruction and data counts, overrides, bond and shared-object counts); the sources fit by construction: a refusal that says the inferred architecture does not hold the program (unknown register/port, operand out of range, no assemblable alternative) is a violation, any other refusal a label; non-trivial = accepted and some index or length of the source is 2^k-1, 2^k or 2^k+1; distinct = distinct case JSON",
		genBasm, propBasm),
	pbt.Def("basm_fragments",
		"harness/c06 fragment graphs (1..9 instances of 1..4 fragments, register names from {r0..r16}, bodies of 0..9 instructions) x partitions (coarsest, a random one, the finest for <= 5 instances), default switches; oracle wf() + processor/IO counts of the graph + every processor has exactly the ports the partition gives it + the composed program is not refused for lack of registers/ports/ROM; non-trivial = an accepted partition whose machine has a ROM length, register, port index or opcode count at 2^k-1|2^k|2^k+1",
		genFragCase, propFrag),
	pbt.Def("neuralbond",
		"layered nets (inputs and hidden widths from {1,2,3,4,5,7,8,9}, full or pruned connections, linear/summation/softmax, romcode|fragment mode with collapse groups, sync|async, float32|float16) -> neuralbond (in process) -> basm with the neuron library and -chooser-min-word-size -chooser-force-same-name; oracle wf() + processors = cpdef lines of the emitted file, machine inputs/outputs = first/last layer width; non-trivial = accepted and the machine touches a boundary (as basm_fragments)",
		genNBCase, propNB),
	pbt.Def("bmqsim",
		"circuits of 1..2 (thorough: 3) qubits with 1..9 gates -> bmqsim -build-matrix-seq-hardcoded flavours real/complex/addtree_complex (in process) -> basm -chooser-min-word-size; oracle wf() + processors = cpdef lines; non-trivial as neuralbond",
		genQCase, propQ),
	pbt.Def("bondgo",
		"harness/c12 Go-subset programs (faithful and full grammar, register size 8/16/32; one case in four a uint8 program compiled with -register-size 12/24/10/20/48 -mpm: the machine and its processors have to agree on whatever size the compiler settles for) through the bondgo CLI: -mpm -save-bondmachine (whole machine) or -save-machine (one processor), -save-assembly; the JSON is loaded back; oracle wf() fed by the saved assembly (instruction count, highest register/port per processor); a compiler that rejects or crashes emits nothing (label), a hang is C12's subject (excluded); non-trivial = accepted and the machine touches a boundary",
		genGoCase, propGo),
	pbt.Def("unfittable",
		"one operand that cannot fit in a small correct program (3..9 instructions): immediate 2^Rsize(+0,1,255) by rset/mov, jump to 2^O(+0,1,100) by j/jz, register r99999999999999999999 / r18446744073709551616, port i/o 255|256|511|65536 (port counts are 8 bit), romsize smaller than the program, RAM address 2^ramsize(+…), ROM address 2^O(+…); bondgo: constant 2^Rsize(+…) assigned or added; oracle: the front-end returns an error and emits no machine (a panic is not an error); non-trivial = judged",
		genUnfit, propUnfit),
}

func TestProps(t *testing.T) {
	t.Cleanup(c12.CleanupWork)
	pbt.RunAll(t, "C16", Props)
}
func TestReplay(t *testing.T) {
	t.Cleanup(c12.CleanupWork)
	pbt.ReplayAll(t, "C16", Props)
}
