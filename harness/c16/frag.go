package c16

// frag.go: fragment graphs and partitions (entry basm_fragments). The case type, the rendering as BASM text
// (`%fragment`, `%meta fidef/filinkatt`, `%meta cpdef … fragcollapse`) and the validity rules are harness/c06's
// (imported: c06.Case, Case.Source). The generator is c06's genCase rewritten for C16's boundaries: register names
// from {r0 … r16} with the powers of two preferred, up to 9 instances so that a collapsed processor reads or
// writes 2^k-1, 2^k, 2^k+1 ports.

import (
	"sort"

	"pgregory.net/rapid"
	"verifharness/c06"
)

type FragCase struct {
	G     c06.Case // Parts: the partitions to assemble
	Probe bool
}

var fragRegNames = []int{0, 1, 2, 3, 4, 5, 7, 8, 9, 15, 16}

var fragOps = []string{"inc", "dec", "add", "add", "cpy", "cpy", "clr", "rset", "rset", "mult"}

func genFrag(t *rapid.T, pool []int) c06.Frag {
	var f c06.Frag
	nin := rapid.IntRange(0, min(3, len(pool))).Draw(t, "nin")
	perm := rapid.Permutation(pool).Draw(t, "inregs")
	f.In = append([]int(nil), perm[:nin]...)
	def := map[int]bool{}
	var defl []int
	mark := func(r int) {
		if !def[r] {
			def[r] = true
			defl = append(defl, r)
		}
	}
	for _, r := range f.In {
		mark(r)
	}
	pick := func(l string) int { return defl[rapid.IntRange(0, len(defl)-1).Draw(t, l)] }
	anyr := func(l string) int { return pool[rapid.IntRange(0, len(pool)-1).Draw(t, l)] }
	// body lengths around the powers of two (the ROM of a one-instance CP is reads + body + writes)
	nbody := rapid.SampledFrom([]int{0, 1, 2, 3, 4, 5, 7, 8, 9}).Draw(t, "nbody")
	if nin == 0 && nbody == 0 {
		nbody = 1
	}
	for k := 0; k < nbody; k++ {
		op := rapid.SampledFrom(fragOps).Draw(t, "op")
		if len(defl) == 0 && op != "clr" {
			op = "rset"
		}
		in := c06.Instr{Op: op}
		switch op {
		case "inc", "dec":
			in.A = pick("a")
		case "add", "mult":
			in.A, in.B = pick("a"), pick("b")
		case "cpy":
			in.A, in.B = anyr("a"), pick("b")
		case "clr":
			in.A = anyr("a")
		case "rset":
			in.A, in.B = anyr("a"), rapid.SampledFrom([]int{0, 1, 31, 32, 127, 128, 255}).Draw(t, "imm")
		}
		mark(in.A)
		f.Body = append(f.Body, in)
	}
	nout := rapid.IntRange(1, min(3, len(defl))).Draw(t, "nout")
	operm := rapid.Permutation(append([]int(nil), defl...)).Draw(t, "outregs")
	f.Out = append([]int(nil), operm[:nout]...)
	return f
}

func fragRank(s c06.Src) int {
	if s.Inst < 0 {
		return s.Port
	}
	return 1000 + s.Inst*16 + s.Port
}

// linearExtension draws a topological order of the instances (harness/c06/case.go).
func linearExtension(t *rapid.T, c *c06.Case) []int {
	n := len(c.Insts)
	done := make([]bool, n)
	var order []int
	for len(order) < n {
		var ready []int
		for i := 0; i < n; i++ {
			if done[i] {
				continue
			}
			ok := true
			for _, s := range c.Insts[i].In {
				if s.Inst >= 0 && !done[s.Inst] {
					ok = false
				}
			}
			if ok {
				ready = append(ready, i)
			}
		}
		i := ready[rapid.IntRange(0, len(ready)-1).Draw(t, "next")]
		done[i] = true
		order = append(order, i)
	}
	return order
}

func restrictOrder(order []int, cpOf []int, ncp int) [][]int {
	part := make([][]int, ncp)
	for _, i := range order {
		part[cpOf[i]] = append(part[cpOf[i]], i)
	}
	var out [][]int
	for _, cp := range part {
		if len(cp) > 0 {
			out = append(out, cp)
		}
	}
	return out
}

func genFragCase(t *rapid.T) FragCase {
	var c c06.Case
	c.Rsize = rapid.SampledFrom([]int{8, 16, 32}).Draw(t, "rsize")
	// register names: a window of the pool, so that the highest name is a power of two (or one off) now and then
	np := rapid.IntRange(2, 5).Draw(t, "regpool")
	perm := rapid.Permutation(fragRegNames).Draw(t, "regnames")
	pool := append([]int(nil), perm[:np]...)
	sort.Ints(pool)
	nf := rapid.IntRange(1, 4).Draw(t, "nfrags")
	for k := 0; k < nf; k++ {
		c.Frags = append(c.Frags, genFrag(t, pool))
	}
	ni := rapid.SampledFrom([]int{1, 2, 3, 3, 4, 4, 5, 5, 6, 7, 8, 9}).Draw(t, "ninsts")
	nextIn := 0
	var ports []c06.Src
	consumed := map[c06.Src]int{}
	for i := 0; i < ni; i++ {
		in := c06.Inst{Frag: rapid.IntRange(0, nf-1).Draw(t, "frag")}
		f := c.Frags[in.Frag]
		for range f.In {
			var s c06.Src
			internal := len(ports) > 0 && rapid.IntRange(0, 9).Draw(t, "internal") < 5
			if internal {
				s = ports[rapid.IntRange(0, len(ports)-1).Draw(t, "src")]
			} else {
				k := rapid.IntRange(0, nextIn).Draw(t, "extin")
				if nextIn > 0 && k < nextIn && rapid.IntRange(0, 2).Draw(t, "reuse") != 0 {
					k = nextIn
				}
				if k == nextIn {
					nextIn++
				}
				s = c06.Src{Inst: -1, Port: k}
			}
			in.In = append(in.In, s)
		}
		sort.SliceStable(in.In, func(a, b int) bool { return fragRank(in.In[a]) < fragRank(in.In[b]) })
		for _, s := range in.In {
			consumed[s]++
		}
		c.Insts = append(c.Insts, in)
		for p := range f.Out {
			ports = append(ports, c06.Src{Inst: i, Port: p})
		}
	}
	for i, in := range c.Insts {
		nout := len(c.Frags[in.Frag].Out)
		any := false
		for p := 0; p < nout; p++ {
			if consumed[c06.Src{Inst: i, Port: p}] > 0 {
				any = true
			}
		}
		for p := 0; p < nout; p++ {
			switch {
			case consumed[c06.Src{Inst: i, Port: p}] > 0:
				if rapid.IntRange(0, 3).Draw(t, "tap") == 0 {
					c.ExtOut = append(c.ExtOut, c06.Src{Inst: i, Port: p})
				}
			case !any && p == 0:
				c.ExtOut = append(c.ExtOut, c06.Src{Inst: i, Port: p})
			default:
				if rapid.IntRange(0, 1).Draw(t, "extout") == 0 {
					c.ExtOut = append(c.ExtOut, c06.Src{Inst: i, Port: p})
				}
			}
		}
	}
	for k := 0; k < nextIn; k++ {
		c.Inputs = append(c.Inputs, 0)
	}
	c.LinkDef = rapid.Bool().Draw(t, "linkdef")
	c.SinkFirst = rapid.Bool().Draw(t, "sinkfirst")
	// partitions: the coarsest (one processor reads every external input and writes every external output: the
	// widest port counts), one random one, the finest now and then
	order := linearExtension(t, &c)
	c.Parts = append(c.Parts, [][]int{order})
	if ni > 2 {
		ncp := rapid.IntRange(2, ni-1).Draw(t, "ncp")
		cpOf := make([]int, ni)
		for i := range cpOf {
			cpOf[i] = rapid.IntRange(0, ncp-1).Draw(t, "cp")
		}
		c.Parts = append(c.Parts, restrictOrder(linearExtension(t, &c), cpOf, ncp))
	}
	if ni > 1 && ni <= 5 && rapid.Bool().Draw(t, "finest") {
		var finest [][]int
		for _, i := range rapid.Permutation(seqInts(ni)).Draw(t, "cporder") {
			finest = append(finest, []int{i})
		}
		c.Parts = append(c.Parts, finest)
	}
	return FragCase{G: c}
}

// fragPorts predicts, from the graph alone, the port counts of every processor of a partition: a processor reads
// one input per resin port fed from outside it and writes one output per resout port that has a sink outside it.
func fragPorts(c *c06.Case, part [][]int) (n, m []int) {
	at := make([]int, len(c.Insts))
	for ci, cp := range part {
		for _, i := range cp {
			at[i] = ci
		}
	}
	n, m = make([]int, len(part)), make([]int, len(part))
	for ci, cp := range part {
		for _, i := range cp {
			for _, s := range c.Insts[i].In {
				if s.Inst < 0 || at[s.Inst] != ci {
					n[ci]++
				}
			}
		}
	}
	outside := map[c06.Src]bool{}
	for _, l := range c.Links() {
		if l.From.Inst < 0 {
			continue
		}
		if l.To.Inst < 0 || at[l.To.Inst] != at[l.From.Inst] {
			outside[l.From] = true
		}
	}
	for s := range outside {
		m[at[s.Inst]]++
	}
	return
}
