//go:build verif

// C09 — simulation results do not depend on scheduling or on other simulations; no data race.
// Generated machines × stimuli × schedule perturbation (yield hook + GOMAXPROCS) × concurrency plan;
// oracle = tick-by-tick state digests equal to those of the same simulation run alone, unperturbed.
// The same binary is also run under the race detector by checkd (-race build).
package c09

import (
	"crypto/sha256"
	"fmt"
	"runtime"
	"sort"
	"sync"
	"sync/atomic"
	"testing"

	"github.com/BondMachineHQ/BondMachine/pkg/bondmachine"
	"github.com/BondMachineHQ/BondMachine/pkg/simbox"
	"pgregory.net/rapid"
	"verifharness/gen"
	"verifharness/pbt"
)

type SimPlan struct {
	Spec  gen.BMSpec
	Env   gen.Env
	Ticks int
	// Show: processor- and machine-level report options (simbox rules config:<name>): the text VM.Step
	// returns for every tick is part of the trace
	Show []string `json:",omitempty"`
}

var showOptions = []string{"show_pc", "show_instruction", "show_disasm", "show_proc_regs_pre", "show_proc_regs_post", "show_proc_io_pre", "show_proc_io_post", "show_ticks", "show_io_pre", "show_io_post"}

type Case struct {
	Plans     []SimPlan // distinct simulations
	Copies    []int     // how many concurrent copies of each plan (sharing one *Bondmachine, as cmd/simfinetune does)
	YieldSeed uint64
	YieldMax  int    // each worker yields 0..YieldMax times before stepping (0 = hook idle)
	MaxProcs  int    // GOMAXPROCS during the perturbed run
	Single    bool   // also call SinglePipelineSimulate concurrently and compare its report with the solo report
	DataType  string // number type SinglePipelineSimulate prints the outputs in (static or dynamically created)
	// Delays: fixed per-opcode latencies (single-valued distributions, so no random source is involved). ONE
	// *simbox.SimDelays object is shared by every simulation of the case, as cmd/simfinetune shares it
	// between its workers.
	Delays map[string]int
}

func genPlan(t *rapid.T, pipelined bool) SimPlan {
	var p SimPlan
	o := gen.HSOptions{MaxProcs: 5, MaxPad: 2, Replicate: true, LFSR: true}
	if pipelined {
		o.ExtraALU = []string{"addp", "multp", "addp", "multp"}
	}
	p.Spec = gen.HandshakeMachine(t, o)
	for i := 0; i < p.Spec.Inputs; i++ {
		n := rapid.IntRange(0, 6).Draw(t, "nin")
		var st []uint64
		for k := 0; k < n; k++ {
			st = append(st, uint64(rapid.Uint8().Draw(t, "v")))
		}
		p.Env.In = append(p.Env.In, st)
		p.Env.InGap = append(p.Env.InGap, rapid.IntRange(0, 3).Draw(t, "gap"))
	}
	for i := 0; i < p.Spec.Outputs; i++ {
		p.Env.OutStall = append(p.Env.OutStall, rapid.IntRange(0, 3).Draw(t, "stall"))
	}
	p.Ticks = rapid.IntRange(5, 80).Draw(t, "ticks")
	if rapid.IntRange(0, 2).Draw(t, "show") == 0 {
		for _, o := range showOptions {
			if rapid.IntRange(0, 2).Draw(t, "showopt") == 0 {
				p.Show = append(p.Show, o)
			}
		}
	}
	return p
}

func genCase(pipelined bool) func(t *rapid.T) Case {
	return func(t *rapid.T) Case {
		var c Case
		n := rapid.IntRange(1, 3).Draw(t, "nplans")
		for i := 0; i < n; i++ {
			c.Plans = append(c.Plans, genPlan(t, pipelined))
			c.Copies = append(c.Copies, rapid.IntRange(1, 3).Draw(t, "copies"))
		}
		c.YieldSeed = rapid.Uint64().Draw(t, "yseed")
		c.YieldMax = rapid.IntRange(0, 3).Draw(t, "ymax")
		c.MaxProcs = rapid.SampledFrom([]int{1, 2, 4, 16}).Draw(t, "gomaxprocs")
		c.Single = rapid.Bool().Draw(t, "single")
		if rapid.IntRange(0, 2).Draw(t, "withdelays") == 0 {
			c.Delays = map[string]int{}
			for _, op := range []string{"nop", "inc", "add", "i2rw", "r2owa", "j", "rset", "mult"} {
				if rapid.IntRange(0, 2).Draw(t, "hasdelay") == 0 {
					c.Delays[op] = rapid.IntRange(1, 3).Draw(t, "delay")
				}
			}
		}
		c.DataType = rapid.SampledFrom([]string{"unsigned", "float32", "dyn", "dyn"}).Draw(t, "dtype")
		rs := c.Plans[0].Spec.Rsize
		for _, p := range c.Plans {
			if p.Spec.Rsize != rs {
				rs = 0
			}
		}
		switch {
		case c.DataType == "float32" && rs != 32:
			// a number type must have the width of the machine's registers (the exporters index bytes)
			c.DataType = "unsigned"
		case c.DataType == "dyn" && rs != 0:
			// a fixed-point type name: registered on first use by bmnumbers.EventuallyCreateType
			c.DataType = fmt.Sprintf("fps%df%d", rs, rapid.IntRange(1, 7).Draw(t, "fps_f"))
		case c.DataType == "dyn":
			c.DataType = "unsigned"
		}
		return c
	}
}

func runPlan(bm *bondmachine.Bondmachine, p SimPlan, delays *simbox.SimDelays) ([]string, [][]uint64, error) {
	sbox := new(simbox.Simbox)
	for _, o := range p.Show {
		if err := sbox.Add("config:" + o); err != nil {
			return nil, nil, err
		}
	}
	r, err := gen.NewRunnerSB(bm, p.Env, delays, sbox)
	if err != nil {
		return nil, nil, err
	}
	defer r.Close()
	var ds []string
	for i := 0; i < p.Ticks; i++ {
		if err := r.Step(); err != nil {
			return nil, nil, err
		}
		d := r.Digest()
		if len(p.Show) > 0 {
			d += fmt.Sprintf("|report:%x", sha256.Sum256([]byte(r.LastText)))
		}
		ds = append(ds, d)
	}
	return ds, r.Out, nil
}

func singleIn(p SimPlan) []string {
	in := make([]string, p.Spec.Inputs)
	for i := range in {
		v := uint64(0)
		if i < len(p.Env.In) && len(p.Env.In[i]) > 0 {
			v = p.Env.In[i][0]
		}
		in[i] = fmt.Sprintf("%d", v)
	}
	return in
}

func splitmix(x uint64) uint64 {
	x += 0x9e3779b97f4a7c15
	x = (x ^ (x >> 30)) * 0xbf58476d1ce4e5b9
	x = (x ^ (x >> 27)) * 0x94d049bb133111eb
	return x ^ (x >> 31)
}

func prop(c Case) pbt.Outcome {
	var delays *simbox.SimDelays
	if len(c.Delays) > 0 {
		delays = simbox.NewSimDelays()
		for op, d := range c.Delays {
			delays.OpcodeDelays[op] = simbox.DelayDistribution{int32(d): 1.0}
		}
	}
	bms := make([]*bondmachine.Bondmachine, len(c.Plans))
	for i, p := range c.Plans {
		bm, err := gen.Build(p.Spec)
		if err != nil {
			return pbt.Outcome{Excluded: "build-error"}
		}
		bms[i] = bm
	}
	// perturbed: all together, yields injected, GOMAXPROCS changed
	var ctr atomic.Uint64
	hook := func(procId int) {
		if c.YieldMax == 0 {
			return
		}
		n := splitmix(c.YieldSeed^ctr.Add(1)^uint64(procId)<<32) % uint64(c.YieldMax+1)
		for k := uint64(0); k < n; k++ {
			runtime.Gosched()
		}
	}
	bondmachine.VerifYield.Store(&hook)
	old := runtime.GOMAXPROCS(c.MaxProcs)
	var wg sync.WaitGroup
	var mu sync.Mutex
	var fail *pbt.Failure
	type res struct {
		i, k   int
		ds     []string
		out    [][]uint64
		single []string
		err    error
	}
	var got []res
	total := 0
	for i := range c.Plans {
		for k := 0; k < c.Copies[i]; k++ {
			total++
			wg.Add(1)
			go func(i, k int) {
				defer wg.Done()
				ds, out, err := runPlan(bms[i], c.Plans[i], delays)
				mu.Lock()
				defer mu.Unlock()
				got = append(got, res{i: i, k: k, ds: ds, out: out, err: err})
			}(i, k)
		}
		if c.Single {
			total++
			wg.Add(1)
			go func(i int) {
				defer wg.Done()
				var s []string
				var err error
				func() {
					defer func() {
						if r := recover(); r != nil {
							err = fmt.Errorf("panic: %v", r)
						}
					}()
					s, err = bms[i].SinglePipelineSimulate(c.DataType, singleIn(c.Plans[i]), delays)
				}()
				mu.Lock()
				defer mu.Unlock()
				got = append(got, res{i: i, k: -1, single: s, err: err})
			}(i)
		}
	}
	wg.Wait()
	runtime.GOMAXPROCS(old)
	bondmachine.VerifYield.Store(nil)
	// reference: each simulation alone, no perturbation
	type ref struct {
		ds     []string
		out    [][]uint64
		single []string
	}
	refs := make([]ref, len(c.Plans))
	for i, p := range c.Plans {
		ds, out, err := runPlan(bms[i], p, delays)
		if err != nil {
			return pbt.Outcome{Excluded: "sim-error"}
		}
		refs[i] = ref{ds: ds, out: out}
		if c.Single {
			s, err := bms[i].SinglePipelineSimulate(c.DataType, singleIn(p), delays)
			if err != nil {
				return pbt.Outcome{Excluded: "single-error"}
			}
			refs[i].single = s
		}
	}
	sort.SliceStable(got, func(a, b int) bool {
		if got[a].i != got[b].i {
			return got[a].i < got[b].i
		}
		return got[a].k < got[b].k
	})
	for _, g := range got {
		if fail != nil {
			break
		}
		i := g.i
		if g.k < 0 {
			if g.err != nil || fmt.Sprint(g.single) != fmt.Sprint(refs[i].single) {
				fail = pbt.Failf("single-differs", "plan %d: SinglePipelineSimulate(%q) under concurrency returned %v (err %v), alone %v", i, c.DataType, g.single, g.err, refs[i].single)
			}
			continue
		}
		if g.err != nil {
			fail = pbt.Failf("sim-error-concurrent", "plan %d copy %d: %v", i, g.k, g.err)
			continue
		}
		for tck := range g.ds {
			if g.ds[tck] != refs[i].ds[tck] {
				fail = pbt.Failf("trace-differs", "plan %d copy %d: state digest differs from the solo run at tick %d (of %d); GOMAXPROCS=%d yieldmax=%d concurrent sims=%d; outputs solo=%v perturbed=%v",
					i, g.k, tck, len(g.ds), c.MaxProcs, c.YieldMax, total, refs[i].out, g.out)
				break
			}
		}
	}
	maxp := 0
	for _, p := range c.Plans {
		if len(p.Spec.Procs) > maxp {
			maxp = len(p.Spec.Procs)
		}
	}
	labels := []string{fmt.Sprintf("delays=%v", len(c.Delays) > 0), fmt.Sprintf("gomaxprocs=%d", c.MaxProcs), fmt.Sprintf("yieldmax=%d", c.YieldMax), fmt.Sprintf("concurrent=%d", min(total, 6))}
	nt := maxp >= 2 && (c.YieldMax > 0 || total >= 2)
	return pbt.Outcome{NonTrivial: nt, Labels: labels, Fail: fail}
}

const rule = "1..3 dataflow-shaped machines (1..5 processors, i2rw/r2owa IO, generated stimuli and environment stalls), 1..3 concurrent copies of each sharing one Bondmachine (+ optionally concurrent SinglePipelineSimulate), seeded yields 0..3 before every worker step, GOMAXPROCS in {1,2,4,16}; oracle: per-tick digest of the full VM state equals the solo unperturbed run; non-trivial = some machine has >=2 processors and (yields enabled or >=2 concurrent simulations)"

// genCold: the shape that meets process-wide lazily initialised state while it is still cold: two or three
// machines with external inputs, each also run through SinglePipelineSimulate (which parses its stimuli
// with the number library), all started together. The driver runs this entry as many short-lived processes.
func genCold(t *rapid.T) Case {
	c := genCase(false)(t)
	c.Single = true
	for len(c.Plans) < 2 {
		c.Plans = append(c.Plans, genPlan(t, false))
		c.Copies = append(c.Copies, 1)
	}
	for i := range c.Plans {
		for try := 0; try < 6 && c.Plans[i].Spec.Inputs == 0; try++ {
			c.Plans[i] = genPlan(t, false)
		}
	}
	c.DataType = "unsigned"
	if c.MaxProcs < 4 {
		c.MaxProcs = 4
	}
	return c
}

var Props = []*pbt.Entry{
	pbt.Def("cold_concurrent", rule+"; every case has >=2 machines with external inputs and runs SinglePipelineSimulate on each, concurrently, as the first thing a fresh process does (2 cases per process, many processes)", genCold, prop),
	pbt.Def("sched_independent", rule, genCase(false), prop),
	pbt.Def("sched_independent_pipelined", rule+"; ALU mix includes the pipelined opcodes addp/multp", genCase(true), prop),
}

func TestProps(t *testing.T)  { pbt.RunAll(t, "C09", Props) }
func TestReplay(t *testing.T) { pbt.ReplayAll(t, "C09", Props) }
