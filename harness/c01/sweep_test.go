// C01, second entry: the opcode-exhaustive sweep promised in DESIGN.md §3 C01 ("a single wrong bit-slice
// index in one template is confined to one opcode/width, so coverage of that product matters more than raw
// count"). Structured (SmallCheck-style) generation inside the same family: for every row of the
// co-implemented table × register size × R in {1,2,3} (× every port count 1..3 for the IO opcodes) × a grid of
// boundary data, ONE program is generated that executes the opcode once for EVERY operand combination (every
// register, register pair, register × port, jump target), re-loading the operand registers with the boundary
// data before each instance. The oracle is the lock-step property of the first entry, unchanged.
//
// quick tier: rapid draws indexes into the enumeration (a seeded sample); thorough tier: TestSweep runs all of it.
package c01

import (
	"fmt"
	"math"
	"os"
	"sort"
	"strconv"
	"testing"

	"pgregory.net/rapid"
	"verifharness/gen"
	"verifharness/pbt"
)

// boundary data of a register size: all-ones, MSB only, 1, an alternating pattern, 0
func boundary(rsize int) []uint64 {
	mask := ^uint64(0) >> uint(64-rsize)
	return []uint64{mask, uint64(1) << uint(rsize-1), 1, 0x5a5a5a5a5a5a5a5a & mask, 0}
}

var floatData = []float32{1, -1, 2, 0.5, -3.25, 0}

// raw float patterns for jgt0f (judged on every bit pattern)
var floatRaw = []uint64{0, 0x80000000, 0x3f800000, 0xbf800000, 0x7f800000, 0xff800000, 0x7fc00000, 0xffc00000, 0x00000001, 0x80000001}

type sweepKey struct {
	Op       string
	Rsize, R int
	Ports    int // N for "rin"/addi, M for "rout", program-length class for loc/rloc, 0 otherwise
	Data     int // index into the data grid
}

func sweepKeys() []sweepKey {
	var names []string
	for n := range Table {
		names = append(names, n)
	}
	sort.Strings(names)
	var ks []sweepKey
	for _, op := range names {
		row := Table[op]
		for _, rs := range row.Sizes {
			for R := 1; R <= 3; R++ {
				ports := []int{0}
				switch {
				case row.Kind == "rin" || row.Kind == "rout" || op == "addi":
					ports = []int{1, 2, 3}
				case row.Kind == "loc" || row.Kind == "rloc":
					ports = []int{0, 1, 2, 3} // program-length classes
				}
				ndata := 5
				switch {
				case row.Kind == "rr":
					ndata = 25
				case row.Kind == "" || row.Kind == "loc":
					ndata = 1
				case op == "jgt0f":
					ndata = len(floatRaw)
				}
				if rs == 32 && (op == "addf" || op == "multf" || op == "divf") {
					ndata = len(floatData) * len(floatData)
				}
				for _, p := range ports {
					for d := 0; d < ndata; d++ {
						ks = append(ks, sweepKey{op, rs, R, p, d})
					}
				}
			}
		}
	}
	return ks
}

func u(x uint64) string { return strconv.FormatUint(x, 10) }

// sweepCase builds the program of one key. idx only varies the "don't care" dimensions (word size override,
// ROM slack, OnlyDestRegs) deterministically.
func sweepCase(k sweepKey, idx int) Case {
	c := Case{Rsize: k.Rsize, R: k.R}
	nreg := 1 << uint(k.R)
	row := Table[k.Op]
	B := boundary(k.Rsize)
	isFloat := k.Op == "addf" || k.Op == "multf" || k.Op == "divf"
	val := func(i int) uint64 {
		if isFloat {
			return uint64(math.Float32bits(floatData[i%len(floatData)]))
		}
		return B[i%len(B)]
	}
	nb := len(B)
	if isFloat {
		nb = len(floatData)
	}
	va, vb := val(k.Data%nb), val(k.Data/nb)
	noZeroB := k.Op == "div" || k.Op == "mod" || k.Op == "divp" || k.Op == "divf"
	if noZeroB && (vb == 0 || (isFloat && math.Float32frombits(uint32(vb)) == 0)) {
		vb = val(0)
	}
	set := map[string]bool{k.Op: true, "rset": true}
	var p []string
	r := func(i int) string { return "r" + strconv.Itoa(i) }
	switch row.Kind {
	case "":
		p = append(p, "rset r0 "+u(B[3]), k.Op, k.Op, "rset r0 "+u(B[0]), k.Op)
	case "r":
		if k.Op == "addi" {
			c.N = k.Ports
		}
		for a := 0; a < nreg; a++ {
			p = append(p, "rset "+r(a)+" "+u(va), k.Op+" "+r(a))
		}
		// and once more on what the first round left behind
		for a := nreg - 1; a >= 0; a-- {
			p = append(p, k.Op+" "+r(a))
		}
	case "rr":
		for a := 0; a < nreg; a++ {
			for b := 0; b < nreg; b++ {
				if k.Op == "ro2rri" {
					// the address register holds a ROM address inside the program
					p = append(p, "rset "+r(a)+" "+u(va), "rset "+r(b)+" "+u(uint64((k.Data+a+b)%5)), k.Op+" "+r(a)+" "+r(b))
					continue
				}
				p = append(p, "rset "+r(a)+" "+u(va), "rset "+r(b)+" "+u(vb), k.Op+" "+r(a)+" "+r(b))
			}
		}
	case "ri":
		for a := 0; a < nreg; a++ {
			p = append(p, k.Op+" "+r(a)+" "+u(val(k.Data+a)))
		}
		for a := nreg - 1; a >= 0; a-- {
			p = append(p, k.Op+" "+r(a)+" "+u(val(k.Data+a+2)))
		}
	case "rin":
		c.N = k.Ports
		for a := 0; a < nreg; a++ {
			for j := 0; j < c.N; j++ {
				p = append(p, "rset "+r(a)+" "+u(va), k.Op+" "+r(a)+" i"+strconv.Itoa(j))
			}
		}
	case "rout":
		c.M = k.Ports
		for a := 0; a < nreg; a++ {
			for j := 0; j < c.M; j++ {
				// the rset between two writes keeps clear of the recorded finding D12 (back-to-back r2owa)
				p = append(p, "rset "+r(a)+" "+u(val(k.Data+a+j)), k.Op+" "+r(a)+" o"+strconv.Itoa(j))
			}
		}
	case "loc", "rloc":
		// a ladder that visits every rung: rung i jumps to the rung that is `stride` further (mod n) and every
		// rung is tagged by an inc that is executed only when the jump is NOT taken; the lengths cross a
		// power of two so that every bit of the location field is exercised
		set["inc"] = true
		n := []int{3, 5, 8, 17}[k.Ports]
		stride := []int{2, 2, 3, 5}[k.Ports]
		if k.Op == "j" {
			// j: a cycle over all rungs (stride coprime to n), cut by the retire budget
			// (rung i = [j next-rung ; inc r0] at addresses 1+2i; the inc is never reached when j is right)
			p = append(p, "rset r0 "+u(B[3]))
			for i := 0; i < n; i++ {
				p = append(p, "j "+strconv.Itoa(1+2*((i+stride)%n)), "inc r0")
			}
		} else {
			// rloc: rung = [rset rA v ; jX rA target ; inc r0]; taken or not by the data
			reg := 0
			for i := 0; i < n; i++ {
				a := reg % nreg
				reg++
				var v uint64
				if k.Op == "jgt0f" {
					v = floatRaw[(k.Data+i)%len(floatRaw)]
				} else {
					v = B[(k.Data+i)%len(B)]
					if i%2 == 0 {
						v = 0
					}
				}
				target := ((i+stride)%n)*3 + 0
				p = append(p, "rset "+r(a)+" "+u(v), k.Op+" "+r(a)+" "+strconv.Itoa(target), "inc "+r((a+1)%nreg))
			}
		}
	}
	c.Prog = p
	for o := range set {
		c.Ops = append(c.Ops, o)
	}
	sort.Strings(c.Ops)
	c.O = gen.NeededBits(len(p)) + idx%3
	c.WordExtra = []int{0, 1, 0, 3}[idx%4]
	c.L = []int{0, 0, 2}[(idx/4)%3]
	c.Retires = len(p)
	if row.Kind == "loc" || row.Kind == "rloc" {
		c.Retires = 3*len(p) + 4
		if c.Retires > 120 {
			c.Retires = 120
		}
	}
	for i := 0; i < c.Retires+1; i++ {
		v := make([]uint64, c.N)
		for j := range v {
			v[j] = B[(i+j+k.Data)%len(B)] ^ uint64(j+1)
			v[j] &= ^uint64(0) >> uint(64-c.Rsize)
		}
		c.In = append(c.In, v)
	}
	allNorm := true
	for _, o := range c.Ops {
		if !normalisable[o] {
			allNorm = false
		}
	}
	if allNorm && idx%2 == 0 {
		c.OnlyDestRegs = true
		if idx%4 == 0 {
			c.MovMask = 0xaaaaaaaaaaaaaaaa
		}
	}
	return c
}

var allSweepKeys = sweepKeys()

func genSweep(t *rapid.T) Case {
	i := rapid.IntRange(0, len(allSweepKeys)-1).Draw(t, "sweepindex")
	return sweepCase(allSweepKeys[i], i)
}

func propSweep(c Case) pbt.Outcome {
	out := prop(c)
	// the sweep is built to run to the end of its program: a comparison that stops early would make it vacuous
	for _, l := range out.Labels {
		switch l {
		case "sim-stop:before-division-by-zero", "sim-stop:before-float-special-value", "sim-stop:before-rom-address-out-of-program", "sim-stop:simulator-stalled":
			out.NonTrivial = false
			out.Labels = append(out.Labels, "sweep-cut-short")
			return out
		}
	}
	return out
}

const ruleSweep = "opcode-exhaustive sweep: every row of the co-implemented table x register size x R in {1,2,3} x port count 1..3 (IO opcodes) / program length 3,5,8,17 (jumps) x a grid of boundary data (all-ones, MSB, 1, 0x5a.., 0; pairs of them for two-register opcodes; raw float patterns for jgt0f); one program per grid point that executes the opcode once for EVERY operand combination (every register, ordered register pair, register x port, every jump target of a ladder), operand registers re-loaded before each instance; WordSize override, ROM slack, RAM and OnlyDestRegs vary with the index; oracle as in lockstep; non-trivial = at least 3 retires, some register/output non-zero, and the comparison ran to the end of the program"

var sweepEntry = pbt.Def("sweep", ruleSweep, genSweep, propSweep)

func init() { Props = append(Props, sweepEntry) }

// TestSweep enumerates the whole grid (thorough tier), sharded by index.
func TestSweep(t *testing.T) {
	pbt.RunAll(t, "C01", nil)
	shard, _ := strconv.Atoi(os.Getenv("VERIF_SHARD"))
	nshards, _ := strconv.Atoi(os.Getenv("VERIF_NSHARDS"))
	if nshards <= 0 {
		nshards, shard = 1, 0
	}
	// quick tier: a stratified sample — one data point (chosen by VERIF_SEED) of every opcode x size x R x port
	// stratum, so that every template/width combination is executed on every run; thorough tier: the whole grid
	quick := os.Getenv("VERIF_TIER") != "thorough"
	seed, _ := strconv.Atoi(os.Getenv("VERIF_BASE_SEED")) // the same for every shard of a run
	type stratum struct {
		Op              string
		Rsize, R, Ports int
	}
	size := map[stratum]int{}
	for _, k := range allSweepKeys {
		size[stratum{k.Op, k.Rsize, k.R, k.Ports}]++
	}
	order := map[stratum]int{}
	n, bad, sel := 0, map[string]bool{}, 0
	for i, k := range allSweepKeys {
		if quick {
			st := stratum{k.Op, k.Rsize, k.R, k.Ports}
			if _, ok := order[st]; !ok {
				order[st] = len(order)
			}
			if k.Data != (seed+order[st])%size[st] {
				continue
			}
		}
		sel++
		if sel%nshards != shard {
			continue
		}
		c := sweepCase(k, i)
		out := pbt.Guard(func() pbt.Outcome { return propSweep(c) })
		pbt.Observe(sweepEntry, c, out)
		n++
		if out.Fail != nil && !bad[out.Fail.Sig] {
			bad[out.Fail.Sig] = true
			path := pbt.WriteFail("sweep", c, out.Fail)
			t.Errorf("FAIL sweep: %s (sig=%q) replay=%s", out.Fail.Msg, out.Fail.Sig, path)
		}
	}
	pbt.Extra("sweep", "enumerated", float64(n))
	if shard == 0 { // (checkd adds numeric extras up over the shards)
		pbt.Extra("sweep", "grid_size", float64(len(allSweepKeys)))
		pbt.Extra("sweep", "selected_for_this_tier", float64(sel))
	}
	t.Logf("sweep: %d of %d grid points, failing signatures: %d", n, len(allSweepKeys), len(bad))
	_ = fmt.Sprint
}
