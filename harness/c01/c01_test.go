// C01 — generated processor HDL executes programs exactly as the ISA simulator does.
// Lock-step differential at instruction-retire points: text of Arch/Conproc/Rom/Ram.Write_verilog
// under /verif's Verilog interpreter vs procbuilder.VM.Step.
package c01

import (
	"fmt"
	"math"
	"sort"
	"strconv"
	"strings"
	"testing"

	"github.com/BondMachineHQ/BondMachine/pkg/bmline"
	"github.com/BondMachineHQ/BondMachine/pkg/bmreqs"
	"github.com/BondMachineHQ/BondMachine/pkg/procbuilder"
	"pgregory.net/rapid"
	"verifharness/gen"
	"verifharness/pbt"
	"verifharness/vlog"
)

type Case struct {
	Rsize, R, N, M, L, O int
	WordExtra            int      // 0 = automatic word size, k>0 = WordSize = Max_word + k - 1 (k=1: exactly Max_word)
	Ops                  []string // opcode subset S (always contains the opcodes of Prog)
	Prog                 []string
	In                   [][]uint64 // input vector per retire index (held between retire points)
	OnlyDestRegs         bool
	Retires              int
	Strict               bool // replay files of recorded findings: judge the excluded classes too
	// ClosedLoop: the inputs are driven by a handshaking producer instead of being held valid: input j
	// offers column j of In value by value, lowers valid when it sees received, waits for received to fall
	// and Gap[j] more steps before the next offer. Only for programs that read inputs with i2rw alone
	// (an i2r would sample a line whose content depends on timing).
	// MovMask: when the requirement tree of the optimisation is derived, instruction i of the program is shown
	// to the front-end in its source spelling `mov rX, <imm>` instead of `rset rX <imm>` if bit i%64 is set
	// (basm sources write mov; the opcode's HLAssemblerNormalize turns it into rset)
	MovMask    uint64 `json:",omitempty"`
	ClosedLoop bool   `json:",omitempty"`
	Gap        []int  `json:",omitempty"`
}

// loopEnv is the closed-loop producer of one world.
type loopEnv struct {
	idx, wait []int
	offering  []bool
}

func newLoopEnv(n int) *loopEnv {
	return &loopEnv{idx: make([]int, n), wait: make([]int, n), offering: make([]bool, n)}
}

// step decides, for input j, what the producer drives before the next step of the processor, given the
// received line it sees now: (value, valid).
func (e *loopEnv) step(c Case, j int, received bool) (uint64, bool) {
	switch {
	case e.offering[j] && received:
		e.offering[j] = false
		e.idx[j]++
		e.wait[j] = 0
		if j < len(c.Gap) {
			e.wait[j] = c.Gap[j]
		}
	case !e.offering[j] && !received:
		if e.wait[j] > 0 {
			e.wait[j]--
		} else if e.idx[j] < len(c.In) {
			e.offering[j] = true
		}
	}
	v := uint64(0)
	if e.idx[j] < len(c.In) {
		v = c.In[e.idx[j]][j]
	}
	return v, e.offering[j]
}

func regName(t *rapid.T, nreg int, l string) string {
	return "r" + strconv.Itoa(rapid.IntRange(0, nreg-1).Draw(t, l))
}

var normalisable = map[string]bool{"add": true, "cil": true, "cir": true, "clr": true, "cpy": true, "dec": true, "div": true, "i2r": true, "i2rw": true,
	"inc": true, "j": true, "jz": true, "mult": true, "nop": true, "r2o": true, "r2owa": true, "rset": true}

func opsFor(rsize int) []string {
	var r []string
	for n, row := range Table {
		for _, s := range row.Sizes {
			if s == rsize {
				r = append(r, n)
			}
		}
	}
	sort.Strings(r)
	return r
}

func genCase(t *rapid.T) Case {
	var c Case
	c.Rsize = rapid.SampledFrom([]int{8, 16, 32, 64}).Draw(t, "rsize")
	c.R = rapid.SampledFrom([]int{1, 1, 2, 3}).Draw(t, "R")
	nreg := 1 << uint(c.R)
	avail := opsFor(c.Rsize)
	c.OnlyDestRegs = rapid.Bool().Draw(t, "onlydestregs")
	if c.OnlyDestRegs {
		// the requirement tree is derived by the front-end's HLAssemblerNormalize, which knows these opcodes
		var a2 []string
		for _, o := range avail {
			if normalisable[o] {
				a2 = append(a2, o)
			}
		}
		avail = a2
	}
	if c.Rsize == 32 && !c.OnlyDestRegs && rapid.IntRange(0, 2).Draw(t, "floatfocus") == 0 {
		// concentrate on the float opcodes now and then (they are a small share of the 32-bit table)
		avail = []string{"addf", "multf", "divf", "jgt0f", "rset", "cpy", "j", "nop", "r2o", "addp", "multp", "divp"}
	}
	// opcode subset: a random non-empty subset, usually with something that produces non-zero data
	nops := rapid.IntRange(1, 8).Draw(t, "nops")
	set := map[string]bool{}
	for i := 0; i < nops; i++ {
		set[rapid.SampledFrom(avail).Draw(t, "op")] = true
	}
	if rapid.IntRange(0, 9).Draw(t, "withsource") != 0 {
		set[rapid.SampledFrom([]string{"rset", "rset", "inc", "dec", "i2r", "i2rw"}).Draw(t, "source")] = true
	}
	var ops []string
	for o := range set {
		ops = append(ops, o)
	}
	sort.Strings(ops)
	hasIn, hasOut := false, false
	for _, o := range ops {
		switch Table[o].Kind {
		case "rin":
			hasIn = true
		}
		if o == "addi" {
			hasIn = true
		}
		switch Table[o].Kind {
		case "rout":
			hasOut = true
		}
	}
	if hasIn {
		c.N = rapid.IntRange(1, 3).Draw(t, "N")
	}
	if hasOut {
		c.M = rapid.IntRange(1, 3).Draw(t, "M")
	}
	c.L = rapid.SampledFrom([]int{0, 0, 2, 4}).Draw(t, "L")
	n := rapid.IntRange(1, 30).Draw(t, "len")
	floaty := false
	for _, o := range ops {
		switch o {
		case "addf", "multf", "divf", "jgt0f":
			floaty = true
		}
	}
	var sources []string
	for _, o := range ops {
		switch o {
		case "rset", "inc", "dec", "i2r", "i2rw":
			sources = append(sources, o)
		}
	}
	prevLine := ""
	for i := 0; i < n; i++ {
		op := rapid.SampledFrom(ops).Draw(t, "instr")
		if i < 3 && len(sources) > 0 && rapid.Bool().Draw(t, "prologue") {
			op = rapid.SampledFrom(sources).Draw(t, "srcinstr")
		}
		if strings.HasPrefix(prevLine, "i2rw ") && rapid.IntRange(0, 2).Draw(t, "readagain") == 0 {
			op = "i2rw"
		}
		line := op
		switch Table[op].Kind {
		case "r":
			line += " " + regName(t, nreg, "ra")
		case "rr":
			line += " " + regName(t, nreg, "ra") + " " + regName(t, nreg, "rb")
		case "ri":
			var imm uint64
			switch rapid.IntRange(0, 4).Draw(t, "immkind") {
			case 0:
				imm = 0
			case 1:
				imm = 1
			case 2:
				imm = ^uint64(0) >> uint(64-c.Rsize)
			case 3:
				imm = uint64(1) << uint(c.Rsize-1)
			default:
				imm = rapid.Uint64().Draw(t, "imm") >> uint(64-c.Rsize)
			}
			if c.Rsize == 32 && floaty {
				imm = uint64(math.Float32bits(float32(rapid.SampledFrom([]float64{0, 1, -1, 2, 0.5, -3.25, 1000, 1e-3, 7.5, -0.125, 3.1415927}).Draw(t, "fimm"))))
				if rapid.IntRange(0, 3).Draw(t, "fspecial") == 0 {
					// raw patterns: -0.0, +/-inf, NaNs with either sign, subnormals (jgt0f judges raw bits;
					// arithmetic on them stops the comparison before the instruction)
					imm = uint64(rapid.SampledFrom([]uint32{0x80000000, 0x7f800000, 0xff800000, 0x7fc00000, 0xffc00000, 0x7f800001, 0x00000001, 0x80000001, 0x007fffff}).Draw(t, "fraw"))
				}
			}
			line += " " + regName(t, nreg, "ra") + " " + strconv.FormatUint(imm, 10)
		case "rin":
			reg, in := regName(t, nreg, "ra"), rapid.IntRange(0, c.N-1).Draw(t, "in")
			if pf := strings.Fields(prevLine); op == "i2rw" && len(pf) == 3 && pf[0] == "i2rw" && rapid.Bool().Draw(t, "readpair") {
				// two reads in a row into the same register (from another input when there is one)
				reg = pf[1]
				if c.N >= 2 {
					pin, _ := strconv.Atoi(pf[2][1:])
					in = (pin + 1 + rapid.IntRange(0, c.N-2).Draw(t, "otherin")) % c.N
				}
			}
			line += " " + reg + " i" + strconv.Itoa(in)
		case "rout":
			line += " " + regName(t, nreg, "ra") + " o" + strconv.Itoa(rapid.IntRange(0, c.M-1).Draw(t, "out"))
		case "loc":
			line += " " + strconv.Itoa(rapid.IntRange(0, n-1).Draw(t, "target"))
		case "rloc":
			line += " " + regName(t, nreg, "ra") + " " + strconv.Itoa(rapid.IntRange(0, n-1).Draw(t, "target"))
		}
		c.Prog = append(c.Prog, line)
		prevLine = line
	}
	c.Ops = ops
	c.O = gen.NeededBits(n) + rapid.IntRange(0, 2).Draw(t, "oslack")
	c.WordExtra = rapid.SampledFrom([]int{0, 0, 1, 3}).Draw(t, "wordextra")
	c.Retires = rapid.IntRange(3, 60).Draw(t, "retires")
	for k := 0; k < c.Retires+1; k++ {
		v := make([]uint64, c.N)
		for j := range v {
			v[j] = rapid.Uint64().Draw(t, "inval") >> uint(64-c.Rsize)
		}
		c.In = append(c.In, v)
	}
	if c.OnlyDestRegs && rapid.Bool().Draw(t, "movspelling") {
		c.MovMask = rapid.Uint64().Draw(t, "movmask")
	}
	onlyWaitingReads := c.N > 0
	for _, l := range c.Prog {
		if strings.HasPrefix(l, "i2r ") || strings.HasPrefix(l, "addi ") { // sample the input lines without a handshake
			onlyWaitingReads = false
		}
	}
	if onlyWaitingReads && rapid.IntRange(0, 2).Draw(t, "closedloop") != 0 {
		c.ClosedLoop = true
		for j := 0; j < c.N; j++ {
			c.Gap = append(c.Gap, rapid.IntRange(0, 3).Draw(t, "gap"))
		}
	}
	return c
}

type built struct {
	m    *procbuilder.Machine
	text map[string]string
}

func build(c Case, opt bool) (*built, error) {
	m := new(procbuilder.Machine)
	a := &m.Arch
	a.Rsize = uint8(c.Rsize)
	a.Modes = []string{"ha"}
	a.R, a.N, a.M, a.L, a.O = uint8(c.R), uint8(c.N), uint8(c.M), uint8(c.L), uint8(c.O)
	var ops []procbuilder.Opcode
	for _, n := range c.Ops {
		op := gen.OpByName(n)
		if op == nil {
			return nil, fmt.Errorf("unknown opcode %s", n)
		}
		ops = append(ops, op)
	}
	sort.Sort(procbuilder.ByName(ops))
	a.Op = ops
	if c.WordExtra > 0 {
		a.WordSize = uint8(a.Max_word() + c.WordExtra - 1)
	}
	prog, err := a.Assembler([]byte(strings.Join(c.Prog, "\n") + "\n"))
	if err != nil {
		return nil, fmt.Errorf("assembler: %v", err)
	}
	m.Program = prog
	ri := new(procbuilder.RuntimeInfo)
	ri.Init()
	conf := &procbuilder.Config{Runinfo: ri}
	var rg *bmreqs.ReqRoot
	if opt {
		// the optimisation is derived from the program exactly as the front-end does it: every
		// instruction registers its requirements through its opcode's HLAssemblerNormalize
		rg = bmreqs.NewReqRoot()
		defer rg.Close()
		rg.Requirement(bmreqs.ReqRequest{Node: "/", T: bmreqs.ObjectSet, Name: "bm", Value: "cps", Op: bmreqs.OpAdd})
		rg.Requirement(bmreqs.ReqRequest{Node: "/bm:cps", T: bmreqs.ObjectSet, Name: "id", Value: "0", Op: bmreqs.OpAdd})
		for i, l := range c.Prog {
			f := strings.Fields(l)
			shown := f
			if f[0] == "rset" && c.MovMask>>(uint(i)%64)&1 == 1 {
				shown = append([]string{"mov"}, f[1:]...)
			}
			bl, err := bmline.Text2BasmLine(strings.Join(shown, "::"))
			if err != nil {
				return nil, fmt.Errorf("Text2BasmLine(%q): %v", l, err)
			}
			op := gen.OpByName(f[0])
			// (basm files the opcode under the node before it normalises the line: matcherresolver.go:192)
			rg.Requirement(bmreqs.ReqRequest{Node: "/bm:cps/id:0", T: bmreqs.ObjectSet, Name: "opcodes", Value: f[0], Op: bmreqs.OpAdd})
			if _, err := op.HLAssemblerNormalize(a, rg, "/bm:cps/id:0", bl); err != nil {
				return nil, fmt.Errorf("HLAssemblerNormalize(%q): %v", l, err)
			}
		}
		conf.ReqRoot = rg
		conf.HwOptimizations = procbuilder.SetHwOptimization(conf.HwOptimizations, procbuilder.HwOptimizations(procbuilder.OnlyDestRegs))
	}
	b := &built{m: m, text: map[string]string{}}
	// some opcodes write auxiliary Verilog files (FPU IP) into the CWD while the processor is rendered
	extra, err := gen.InScratch(func() error {
		b.text["a0.v"] = a.Write_verilog("a0", map[string]string{"processor": "p0", "rom": "p0rom", "ram": "p0ram"}, "iverilog")
		b.text["p0.v"] = a.Conproc.Write_verilog(conf, a, "p0", "iverilog")
		b.text["p0rom.v"] = a.Rom.Write_verilog(m, "p0rom", "iverilog")
		if c.L != 0 {
			b.text["p0ram.v"] = a.Ram.Write_verilog(conf, m, "p0ram", "iverilog")
		}
		return nil
	})
	if err != nil {
		return nil, err
	}
	for n, t := range extra {
		if strings.HasSuffix(n, ".v") {
			b.text["extra_"+n] = t
		}
	}
	return b, nil
}

type snap struct {
	pc   uint64
	regs []uint64
	outs []uint64
}

func (s snap) String() string { return fmt.Sprintf("pc=%d regs=%v outs=%v", s.pc, s.regs, s.outs) }

func eqSnap(a, b snap) bool {
	if a.pc != b.pc || len(a.regs) != len(b.regs) || len(a.outs) != len(b.outs) {
		return false
	}
	for i := range a.regs {
		if a.regs[i] != b.regs[i] {
			return false
		}
	}
	for i := range a.outs {
		if a.outs[i] != b.outs[i] {
			return false
		}
	}
	return true
}

// simTrace runs the Go ISA simulator and returns the state after every retired instruction. It stops
// at end of program, before a division/modulo by zero, and after maxRet retires.
func simTrace(c Case, m *procbuilder.Machine, maxRet int) ([]snap, []int, string, error) {
	vm := new(procbuilder.VM)
	vm.Mach = m
	if err := vm.Init(); err != nil {
		return nil, nil, "", err
	}
	var tr []snap
	var retiredPc []int
	stop := ""
	setIn := func(k int) {
		for j := 0; j < c.N; j++ {
			vm.Inputs[j] = gen.Val(c.Rsize, c.In[k][j])
			vm.InputsValid[j] = true
		}
	}
	env := newLoopEnv(c.N)
	if !c.ClosedLoop {
		setIn(0)
	}
	steps := 0
	for len(tr) < maxRet {
		if int(vm.Pc) >= len(c.Prog) {
			stop = "end-of-program"
			break
		}
		if c.ClosedLoop {
			for j := 0; j < c.N; j++ {
				v, valid := env.step(c, j, vm.InputsRecv[j])
				vm.Inputs[j] = gen.Val(c.Rsize, v)
				vm.InputsValid[j] = valid
			}
		}
		pc := int(vm.Pc)
		f := strings.Fields(c.Prog[pc])
		if f[0] == "div" || f[0] == "mod" || f[0] == "divp" {
			src, _ := strconv.Atoi(f[2][1:])
			if gen.U64(vm.Registers[src]) == 0 {
				stop = "before-division-by-zero"
				break
			}
		}
		if f[0] == "addf" || f[0] == "multf" || f[0] == "divf" {
			d, _ := strconv.Atoi(f[1][1:])
			sr, _ := strconv.Atoi(f[2][1:])
			a := math.Float32frombits(uint32(gen.U64(vm.Registers[d])))
			b := math.Float32frombits(uint32(gen.U64(vm.Registers[sr])))
			var r float32
			switch f[0] {
			case "addf":
				r = a + b
			case "multf":
				r = a * b
			default:
				r = a / b
			}
			if !tame(a) || !tame(b) || !tame(r) || (f[0] == "divf" && b == 0) {
				stop = "before-float-special-value"
				break
			}
		}
		if f[0] == "ro2rri" {
			sr, _ := strconv.Atoi(f[2][1:])
			if gen.U64(vm.Registers[sr]) >= uint64(len(c.Prog)) {
				stop = "before-rom-address-out-of-program"
				break
			}
		}
		if _, err := vm.Step(nil); err != nil {
			return nil, nil, "", fmt.Errorf("simulator step at pc %d (%s): %v", pc, c.Prog[pc], err)
		}
		steps++
		// environment on outputs: received echoes valid
		for o := 0; o < c.M; o++ {
			vm.OutputsRecv[o] = vm.OutputsValid[o]
		}
		waiting := Waiting[f[0]]
		retired := !waiting || int(vm.Pc) != pc
		if retired {
			s := snap{pc: vm.Pc}
			for _, r := range vm.Registers {
				s.regs = append(s.regs, gen.U64(r))
			}
			for _, o := range vm.Outputs {
				s.outs = append(s.outs, gen.U64(o))
			}
			tr = append(tr, s)
			retiredPc = append(retiredPc, pc)
			if !c.ClosedLoop {
				setIn(len(tr))
			}
		}
		if steps > 300*maxRet+1000 { // addf simulates a 120-step "zero anomaly" latency
			stop = "simulator-stalled"
			break
		}
	}
	return tr, retiredPc, stop, nil
}

// hdlTrace executes the generated Verilog and returns the state after every retired instruction.
func hdlTrace(c Case, b *built, maxRet int) ([]snap, []int, string, *pbt.Failure) {
	d, diags := vlog.ParseDesign(b.text)
	for _, dg := range diags {
		if dg.Class == vlog.ClassSyntax {
			return nil, nil, "", pbt.Failf("hdl-syntax", "generated Verilog does not parse: %v", dg)
		}
		if dg.Class == vlog.ClassUnsupported {
			return nil, nil, "unsupported:" + dg.Msg, nil
		}
	}
	sim, err := vlog.Elaborate(d, "a0", nil)
	if err != nil {
		return nil, nil, "", pbt.Failf("hdl-elaborate", "generated Verilog does not elaborate: %v", err)
	}
	nreg := 1 << uint(c.R)
	setIn := func(k int) {
		for j := 0; j < c.N; j++ {
			sim.Set(fmt.Sprintf("i%d", j), c.In[k][j])
			sim.Set(fmt.Sprintf("i%d_valid", j), 1)
		}
	}
	sim.Set("reset_signal", 1)
	for o := 0; o < c.M; o++ {
		sim.Set(fmt.Sprintf("o%d_received", o), 0)
	}
	env := newLoopEnv(c.N)
	if c.ClosedLoop {
		for j := 0; j < c.N; j++ {
			sim.Set(fmt.Sprintf("i%d", j), 0)
			sim.Set(fmt.Sprintf("i%d_valid", j), 0)
		}
	} else {
		setIn(0)
	}
	if err := sim.Tick("clock_signal"); err != nil {
		return nil, nil, "", pbt.Failf("interp", "%v", err)
	}
	sim.Set("reset_signal", 0)
	if err := sim.Settle(); err != nil {
		return nil, nil, "", pbt.Failf("interp", "%v", err)
	}
	var tr []snap
	var retiredPc []int
	cycles := 0
	for len(tr) < maxRet {
		pc := int(sim.Get("p0_instance._pc"))
		if c.ClosedLoop {
			for j := 0; j < c.N; j++ {
				v, valid := env.step(c, j, sim.Get(fmt.Sprintf("i%d_received", j)) == 1)
				sim.Set(fmt.Sprintf("i%d", j), v)
				sim.Set(fmt.Sprintf("i%d_valid", j), b2u(valid))
			}
			if err := sim.Settle(); err != nil {
				return nil, nil, "", pbt.Failf("interp", "%v", err)
			}
		}
		if err := sim.Tick("clock_signal"); err != nil {
			return nil, nil, "", pbt.Failf("interp", "cycle %d: %v", cycles, err)
		}
		cycles++
		// environment on outputs: received echoes valid (one cycle later, like a registered consumer)
		for o := 0; o < c.M; o++ {
			sim.Set(fmt.Sprintf("o%d_received", o), sim.Get(fmt.Sprintf("o%d_valid", o)))
		}
		if sim.NBAWritten("p0_instance._pc") {
			s := snap{pc: sim.Get("p0_instance._pc")}
			for r := 0; r < nreg; r++ {
				s.regs = append(s.regs, sim.Get(fmt.Sprintf("p0_instance._r%d", r)))
			}
			for o := 0; o < c.M; o++ {
				s.outs = append(s.outs, sim.Get(fmt.Sprintf("p0_instance._auxo%d", o)))
			}
			tr = append(tr, s)
			retiredPc = append(retiredPc, pc)
			if !c.ClosedLoop {
				setIn(len(tr))
			}
		}
		if err := sim.Settle(); err != nil {
			return nil, nil, "", pbt.Failf("interp", "%v", err)
		}
		if cycles > 600*maxRet+2000 { // the float divider IP needs on the order of a hundred cycles per operation
			return tr, retiredPc, "hdl-stalled", nil
		}
	}
	if sim.DivByZero > 0 {
		return tr, retiredPc, "hdl-division-by-zero", nil
	}
	return tr, retiredPc, "", nil
}

func prop(c Case) pbt.Outcome {
	for _, l := range c.Prog {
		f := strings.Fields(l)
		if _, ok := Table[f[0]]; !ok {
			return pbt.Outcome{Excluded: "invalid-case"}
		}
	}
	if len(c.In) < c.Retires+1 {
		return pbt.Outcome{Excluded: "invalid-case"}
	}
	b, err := build(c, false)
	if err != nil {
		// the assembler is in the loop; its failures belong to C03
		return pbt.Outcome{Excluded: "assembler-rejects"}
	}
	str, spc, stop, err := simTrace(c, b.m, c.Retires)
	if err != nil {
		return pbt.Outcome{Fail: pbt.Failf("sim-error", "%v\nprogram:\n%s", err, strings.Join(c.Prog, "\n"))}
	}
	labels := map[string]bool{fmt.Sprintf("rsize=%d", c.Rsize): true, fmt.Sprintf("R=%d", c.R): true}
	if stop != "" {
		labels["sim-stop:"+stop] = true
	}
	n := len(str)
	// Recorded finding D12 (see known_findings.json): an r2owa retired directly after an r2owa or r2o on the same output.
	// The hardware never lowers oK_valid between them (it is lowered only while another instruction
	// executes), so a 4-phase consumer keeps received high and the second r2owa waits forever, while the
	// simulator completes it at once (D5). Compared only up to the first of the pair; counted.
	for k := 1; k < n; k++ {
		a, b := strings.Fields(c.Prog[spc[k-1]]), strings.Fields(c.Prog[spc[k]])
		if (a[0] == "r2owa" || a[0] == "r2o" || a[0] == "r2owaa") && b[0] == "r2owa" && a[2] == b[2] {
			if !c.Strict {
				labels["truncated-at:D12-r2owa-back-to-back"] = true
				n = k
				break
			}
		}
	}
	variants := []bool{false}
	if c.OnlyDestRegs {
		variants = append(variants, true)
		labels["onlydestregs"] = true
	}
	nt := false
	for _, opt := range variants {
		bb := b
		if opt {
			bb, err = build(c, true)
			if err != nil {
				// an opcode the front-end cannot normalise: no requirement tree can be derived from this
				// program, so the optimisation is not applicable to it
				labels["onlydestregs-not-applicable"] = true
				continue
			}
			labels["onlydestregs-compared"] = true
		}
		htr, hpc, hstop, f := hdlTrace(c, bb, n)
		if f != nil {
			f.Msg += "\nprogram:\n" + strings.Join(c.Prog, "\n")
			return pbt.Outcome{Fail: f}
		}
		if strings.HasPrefix(hstop, "unsupported") {
			return pbt.Outcome{Excluded: "interpreter-unsupported"}
		}
		if len(htr) < n {
			sig := "hdl-stalled"
			if len(htr) >= 1 && len(htr) < len(spc) {
				a, b := strings.Fields(c.Prog[spc[len(htr)-1]]), strings.Fields(c.Prog[spc[len(htr)]])
				if (a[0] == "r2owa" || a[0] == "r2o" || a[0] == "r2owaa") && b[0] == "r2owa" && a[2] == b[2] {
					sig = "D12:hdl-r2owa-back-to-back-never-completes"
				}
			}
			return pbt.Outcome{Fail: pbt.Failf(sig, "hardware retired %d instructions where the simulator retired %d (%s) optimised=%v\nprogram:\n%s\nlast hdl state: %v", len(htr), n, hstop, opt, strings.Join(c.Prog, "\n"), htr)}
		}
		for k := 0; k < n; k++ {
			want := str[k]
			if int(want.pc) == len(c.Prog) {
				// end of program: the simulator halts at Pc == len(program), the hardware's O-bit program
				// counter runs on into unprogrammed ROM (wrapping when len == 2^O); the two legitimately
				// part here, so the last comparison takes the program counter modulo 2^O
				want.pc = want.pc & (uint64(1)<<uint(c.O) - 1)
			}
			if spc[k] != hpc[k] || !eqSnap(want, htr[k]) {
				op := strings.Fields(c.Prog[spc[k]])[0]
				sig := "diverge:" + op
				if opt {
					sig = "diverge-optimised:" + op
				}
				return pbt.Outcome{Fail: pbt.Failf(sig, "retire %d: instruction at pc %d (%s) [hdl retired pc %d]\n  simulator: %v\n  hardware:  %v\n  previous:  %v\n optimised=%v Rsize=%d R=%d N=%d M=%d L=%d O=%d wordextra=%d ops=%v inputs=%v\nprogram:\n%s",
					k, spc[k], c.Prog[spc[k]], hpc[k], str[k], htr[k], prev(str, k), opt, c.Rsize, c.R, c.N, c.M, c.L, c.O, c.WordExtra, c.Ops, c.In[k], numbered(c.Prog))}
			}
		}
	}
	changed := false
	for k := 0; k < n; k++ {
		labels["op:"+strings.Fields(c.Prog[spc[k]])[0]] = true
		for _, r := range str[k].regs {
			if r != 0 {
				changed = true
			}
		}
		for _, o := range str[k].outs {
			if o != 0 {
				changed = true
			}
		}
		if k > 0 && str[k].pc != uint64(spc[k]+1) {
			labels["branch-taken"] = true
		}
	}
	if stop == "simulator-stalled" && n == len(str) {
		// the simulator stopped retiring (its step budget is hundreds of steps per instruction): the hardware
		// must be stuck on the same instruction, not past it
		if htr, hpc, _, f := hdlTrace(c, b, n+1); f == nil && len(htr) > n {
			return pbt.Outcome{Fail: pbt.Failf("sim-stalled", "the simulator retires %d instructions and then never completes the next one; the hardware retires it (pc %d: %s) and goes on\nprogram:\n%s",
				n, hpc[n], c.Prog[hpc[n]], numbered(c.Prog))}
		}
	}
	nt = n >= 3 && changed
	if c.ClosedLoop {
		labels["closed-loop-inputs"] = true
	}
	var ls []string
	for l := range labels {
		ls = append(ls, l)
	}
	sort.Strings(ls)
	return pbt.Outcome{NonTrivial: nt, Labels: ls}
}

// tame: +0 or a normal finite float32 of moderate magnitude (the FPU IP and Go agree on these; NaN,
// infinities, subnormals and -0 are outside the compared domain)
func tame(x float32) bool {
	if x == 0 {
		return !math.Signbit(float64(x))
	}
	a := math.Abs(float64(x))
	return !math.IsNaN(a) && !math.IsInf(a, 0) && a >= 1e-30 && a <= 1e30
}

func prev(tr []snap, k int) string {
	if k == 0 {
		return "(reset state)"
	}
	return tr[k-1].String()
}

func numbered(p []string) string {
	var b strings.Builder
	for i, l := range p {
		fmt.Fprintf(&b, "  %2d: %s\n", i, l)
	}
	return b.String()
}

const rule = "(jgt0f is judged on every bit pattern incl. -0.0, NaN, infinities; float arithmetic on zero/normal finite values only) architecture Rsize in {8,16,32,64}, R in 1..3 (R=1 over-weighted), N/M 0..3 (non-zero only when the subset has IO opcodes), L in {0,2,4}, O = needed bits + 0..2, WordSize automatic / exact / larger, opcode subset = random non-empty subset of the co-implemented table for that Rsize (name-sorted), OnlyDestRegs on/off with requirements registered from the program through HLAssemblerNormalize; program 1..30 instructions with in-range operands and boundary immediates; one input vector per retire index; oracle: after every retired instruction (HDL: _pc receives a non-blocking assignment with reset low; simulator: completed Step) pc, every register and every output register agree, and the optimised HDL agrees too; comparison stops at end of program or before a division by zero; non-trivial = at least 3 retires and some register/output became non-zero"

var Props = []*pbt.Entry{
	pbt.Def("lockstep", rule, genCase, prop),
}

func TestProps(t *testing.T)  { pbt.RunAll(t, "C01", Props) }
func TestReplay(t *testing.T) { pbt.ReplayAll(t, "C01", Props) }

func b2u(b bool) uint64 {
	if b {
		return 1
	}
	return 0
}
