package c01

// The co-implemented table: which opcodes both back-ends (Go ISA simulator, generated HDL)
// implement, per register size. It is part of the oracle and is built by a stated rule
// (DESIGN.md §3 C01): an opcode is IN at a register size iff
//   (a) its Simulate body has a real branch for that size (not "bump the PC", not an error/TODO),
//   (b) its HDL needs no shared object, board IP or emulator channel, and
//   (c) description, HDL template and simulator address the same architectural state.
// Rows are never edited to silence a disagreement: a disagreement on an IN row is a finding.
//
// The carry flag exists only in the HDL (adc, sbc, rsc, incc, cilc, mulc write it, jc/clc/cset use it);
// the simulator has no carry state, so for those opcodes only the register result is compared and the
// consumers of the flag (jc, clc, cset: simulator bodies are unrelated copy-paste) are OUT.

type row struct {
	Sizes []int  // register sizes at which the opcode is co-implemented
	Kind  string // operand grammar: "" none; r; rr; ri; rin; rout; loc; rloc
	Why   string
}

var all = []int{8, 16, 32, 64}
var small = []int{8, 16}

var Table = map[string]row{
	"add":   {all, "rr", "simulator: dest += src at 8/16/32/64; HDL: _rd <= _rs + _rd"},
	"clr":   {all, "r", "both zero the register"},
	"cpy":   {all, "rr", "both copy src into dest"},
	"dec":   {all, "r", "wrap-around decrement in both"},
	"inc":   {all, "r", "wrap-around increment in both"},
	"j":     {all, "loc", "unconditional jump; targets kept < program length"},
	"jz":    {all, "rloc", "jump when the register is zero"},
	"mult":  {all, "rr", "low Rsize bits of the product in both"},
	"mulc":  {all, "rr", "product; HDL additionally writes the carry flag (not simulator state)"},
	"nop":   {all, "", "no state change"},
	"rset":  {all, "ri", "immediate load; immediate < 2^Rsize"},
	"r2o":   {all, "rout", "register to output port"},
	"i2r":   {all, "rin", "input port to register (no handshake)"},
	"div":   {all, "rr", "unsigned division; comparison stops before a division by zero (simulator panics, hardware yields x)"},
	"i2rw":  {all, "rin", "waits for valid, then loads; the environment keeps valid up"},
	"r2owa": {all, "rout", "waits for received; the environment echoes valid"},
	"and":   {small, "rr", "Simulate has 8/16 branches only"},
	"or":    {small, "rr", "Simulate has 8/16 branches only"},
	"xor":   {small, "rr", "Simulate has 8/16 branches only"},
	"not":   {small, "rr", "dest = ~src; Simulate has 8/16 branches only"},
	"nand":  {small, "rr", "Simulate has 8/16 branches only"},
	"nor":   {small, "rr", "Simulate has 8/16 branches only"},
	"xnor":  {small, "rr", "Simulate has 8/16 branches only"},
	"adc":   {small, "rr", "sum; HDL additionally writes the carry flag"},
	"sbc":   {small, "rr", "difference; HDL additionally writes the carry flag"},
	"rsc":   {small, "rr", "reverse difference; HDL additionally writes the carry flag"},
	"incc":  {small, "r", "increment; HDL additionally writes the carry flag"},
	"cilc":  {small, "r", "left shift; HDL additionally writes the carry flag"},
	"mod":   {small, "rr", "remainder; comparison stops before a modulo by zero"},
	"cil":   {small, "r", "single-operand left shift (assembler and HDL take one register)"},
	"cir":   {all, "r", "single-operand right shift (assembler and HDL take one register)"},
	"cirn":  {small, "r", "single-operand right shift"},
	// multi-step in both back-ends: a retire is the step/cycle in which the program counter moves
	"addp":   {all, "rr", "pipelined addition (put/get phases in both)"},
	"multp":  {all, "rr", "pipelined multiplication"},
	"divp":   {all, "rr", "pipelined division; comparison stops before a division by zero"},
	"addf":   {f32, "rr", "float32 addition on the FPU IP; operands and result kept to zero / normal finite numbers"},
	"multf":  {f32, "rr", "float32 multiplication; same restriction"},
	"divf":   {f32, "rr", "float32 division; same restriction, divisor non-zero"},
	"jgt0f":  {f32, "rloc", "jump when the float register is > 0 (register kept to zero / normal finite numbers)"},
	"r2owaa": {all, "rout", "register to output (simulator: plain copy)"},
	"addi":   {small, "r", "sum of all inputs into a register; Simulate has 8/16 branches only"},
	"ro2rri": {all, "rr", "register-indirect ROM read; the address register is kept < program length"},
}

var f32 = []int{32}

// Waiting marks the opcodes that take several simulator steps / wait for the environment: they retire
// in the step in which the program counter moves (none of them can jump to itself).
var Waiting = map[string]bool{"i2rw": true, "r2owa": true, "addp": true, "multp": true, "divp": true, "addf": true, "multf": true, "divf": true}

// Out lists the opcodes that are NOT compared and why (documentation for the evidence).
var Out = map[string]string{
	"m2rri": "rule (c): the HDL reads the processor RAM (ram_addr/ram_dout), the simulator reads the program ROM",
	"sub":   "simulator stub (PC+1 only)", "r2m": "simulator stub", "r2mri": "simulator stub", "m2r": "simulator stub (PC never advanced)",
	"ro2r": "simulator stub", "cmpr": "simulator stub", "cmprlt": "simulator stub", "cmpv": "simulator stub", "hlt": "simulator stub",
	"je": "simulator stub", "hit": "needs barrier shared object", "dpc": "simulator stub", "expf": "simulator stub",
	"chc": "needs channel", "chw": "needs channel", "wrd": "needs channel", "wwr": "needs channel",
	"k2r": "emulator device", "q2r": "shared queue", "r2q": "shared queue", "r2t": "shared stack", "t2r": "shared stack",
	"r2u": "uart", "u2r": "uart", "r2v": "video ram", "r2vri": "video ram", "r2s": "simulator stub", "s2r": "simulator stub",
	"lfsr82r": "needs lfsr shared object", "saj": "mode switch", "tsp": "threads",
	"jri": "simulator body unrelated to the opcode", "jria": "simulator body unrelated", "jrio": "simulator body unrelated",
	"clc": "carry flag is not simulator state", "cset": "carry flag is not simulator state", "jc": "carry flag is not simulator state",
	"ja": "mode switch not modelled", "jo": "mode switch not modelled", "jcmpl": "comparison flag: simulator stub", "jcmpa": "stub", "jcmpo": "stub", "jcmpria": "stub", "jcmprio": "stub",
}
