package gen

import (
	"fmt"
	"os"
	"path/filepath"
	"sync"

	"github.com/BondMachineHQ/BondMachine/pkg/bondmachine"
	"github.com/BondMachineHQ/BondMachine/pkg/simbox"
)

var cwdMu sync.Mutex

// RenderBM runs the real Bondmachine.Write_verilog (iverilog flavour, empty simbox, no board
// modules) in a private scratch directory and returns the files it wrote. The generator writes into
// the process CWD, so calls are serialised.
func RenderBM(bm *bondmachine.Bondmachine, conf *bondmachine.Config) (files map[string]string, err error) {
	cwdMu.Lock()
	defer cwdMu.Unlock()
	old, err := os.Getwd()
	if err != nil {
		return nil, err
	}
	dir, err := os.MkdirTemp("", "verif-hdl-")
	if err != nil {
		return nil, err
	}
	defer os.RemoveAll(dir)
	if err := os.Chdir(dir); err != nil {
		return nil, err
	}
	defer os.Chdir(old)
	defer func() {
		if r := recover(); r != nil {
			err = fmt.Errorf("Write_verilog panics: %v", r)
		}
	}()
	if conf == nil {
		conf = new(bondmachine.Config)
	}
	iomap := new(bondmachine.IOmap)
	iomap.Assoc = map[string]string{}
	sbox := new(simbox.Simbox)
	if err := bm.Write_verilog(conf, "iverilog", iomap, nil, sbox); err != nil {
		return nil, err
	}
	files = map[string]string{}
	ents, _ := os.ReadDir(dir)
	for _, e := range ents {
		if e.IsDir() {
			continue
		}
		b, err := os.ReadFile(filepath.Join(dir, e.Name()))
		if err != nil {
			return nil, err
		}
		files[e.Name()] = string(b)
	}
	return files, nil
}

// InScratch runs f with the process CWD set to a private scratch directory (serialised) and returns
// the files f left there (some generators write auxiliary Verilog files into the CWD).
func InScratch(f func() error) (files map[string]string, err error) {
	cwdMu.Lock()
	defer cwdMu.Unlock()
	old, err := os.Getwd()
	if err != nil {
		return nil, err
	}
	dir, err := os.MkdirTemp("", "verif-hdl-")
	if err != nil {
		return nil, err
	}
	defer os.RemoveAll(dir)
	if err := os.Chdir(dir); err != nil {
		return nil, err
	}
	defer os.Chdir(old)
	defer func() {
		if r := recover(); r != nil {
			err = fmt.Errorf("generator panics: %v", r)
		}
	}()
	if err := f(); err != nil {
		return nil, err
	}
	files = map[string]string{}
	ents, _ := os.ReadDir(dir)
	for _, e := range ents {
		if e.IsDir() {
			continue
		}
		b, err := os.ReadFile(filepath.Join(dir, e.Name()))
		if err != nil {
			return nil, err
		}
		files[e.Name()] = string(b)
	}
	return files, nil
}
