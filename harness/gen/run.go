package gen

import (
	"crypto/sha256"
	"encoding/hex"
	"fmt"
	"sort"

	"github.com/BondMachineHQ/BondMachine/pkg/bondmachine"
	"github.com/BondMachineHQ/BondMachine/pkg/simbox"
)

// Env is a protocol-abiding environment of a machine's external ports (the one
// SinglePipelineSimulate and the CLI loop implement, generalised to streams and stalls).
type Env struct {
	In       [][]uint64 // value stream offered on each external input
	InGap    []int      // idle ticks between an accepted value and the next offer
	OutStall []int      // ticks an output's valid is left unanswered before received is raised
}

// Runner steps a bondmachine.VM under an Env and records what was delivered.
type Runner struct {
	BM   *bondmachine.Bondmachine
	VM   *bondmachine.VM
	Env  Env
	Out  [][]uint64 // values accepted on each external output, in order
	Sent []int      // how many values of each input stream were accepted by the machine
	Tick int
	// LastText is what VM.Step returned for the last tick (the per-tick report: non-empty only when the
	// simbox given to NewRunnerSB turns some show option on)
	LastText string

	inWait   []int
	inActive []bool
	outWait  []int
	sc       *bondmachine.SimConfig
}

// Val converts v to the Go type the simulator uses for the given register size.
func Val(rsize int, v uint64) interface{} {
	switch {
	case rsize <= 8:
		return uint8(v)
	case rsize <= 16:
		return uint16(v)
	case rsize <= 32:
		return uint32(v)
	}
	return uint64(v)
}

// U64 reads a simulator register value.
func U64(x interface{}) uint64 {
	switch v := x.(type) {
	case uint8:
		return uint64(v)
	case uint16:
		return uint64(v)
	case uint32:
		return uint64(v)
	case uint64:
		return v
	case nil:
		return 0
	}
	panic(fmt.Sprintf("unexpected register value %T", x))
}

func NewRunner(bm *bondmachine.Bondmachine, env Env, delays *simbox.SimDelays) (*Runner, error) {
	return NewRunnerSB(bm, env, delays, new(simbox.Simbox))
}

// NewRunnerSB is NewRunner with the simbox the processors are launched with (processor-level show options:
// config:show_pc, config:show_disasm, …) and from which the machine-level SimConfig is initialised.
func NewRunnerSB(bm *bondmachine.Bondmachine, env Env, delays *simbox.SimDelays, sbox *simbox.Simbox) (*Runner, error) {
	r := &Runner{BM: bm, Env: env}
	vm := new(bondmachine.VM)
	vm.Bmach = bm
	vm.SimDelayMap = delays
	if err := vm.Init(); err != nil {
		return nil, err
	}
	r.VM = vm
	r.sc = new(bondmachine.SimConfig)
	if len(sbox.Rules) > 0 {
		if err := r.sc.Init(sbox, vm, new(bondmachine.Config)); err != nil {
			return nil, err
		}
	}
	if err := vm.Launch_processors(sbox); err != nil {
		return nil, err
	}
	r.Out = make([][]uint64, bm.Outputs)
	r.Sent = make([]int, bm.Inputs)
	r.inWait = make([]int, bm.Inputs)
	r.inActive = make([]bool, bm.Inputs)
	r.outWait = make([]int, bm.Outputs)
	return r, nil
}

// Close stops the workers (Stop_processors exists since the D9 fix).
func (r *Runner) Close() { r.VM.Stop_processors() }

// Step advances one tick: environment on inputs, VM.Step, environment on outputs.
func (r *Runner) Step() error {
	vm := r.VM
	rs := int(r.BM.Rsize)
	for i := 0; i < r.BM.Inputs; i++ {
		if r.inActive[i] && vm.InputsRecv[i] {
			vm.InputsValid[i] = false
			r.inActive[i] = false
			r.Sent[i]++
			g := 0
			if i < len(r.Env.InGap) {
				g = r.Env.InGap[i]
			}
			r.inWait[i] = g
			continue
		}
		if !r.inActive[i] && !vm.InputsRecv[i] {
			if r.inWait[i] > 0 {
				r.inWait[i]--
				continue
			}
			if i < len(r.Env.In) && r.Sent[i] < len(r.Env.In[i]) {
				vm.Inputs_regs[i] = Val(rs, r.Env.In[i][r.Sent[i]])
				vm.InputsValid[i] = true
				r.inActive[i] = true
			}
		}
	}
	text, err := vm.Step(r.sc)
	if err != nil {
		return err
	}
	r.LastText = text
	for o := 0; o < r.BM.Outputs; o++ {
		if vm.OutputsValid[o] {
			if !vm.OutputsRecv[o] {
				st := 0
				if o < len(r.Env.OutStall) {
					st = r.Env.OutStall[o]
				}
				if r.outWait[o] < st {
					r.outWait[o]++
					continue
				}
				vm.OutputsRecv[o] = true
				r.Out[o] = append(r.Out[o], U64(vm.Outputs_regs[o]))
				r.outWait[o] = 0
			}
		} else {
			vm.OutputsRecv[o] = false
			r.outWait[o] = 0
		}
	}
	r.Tick++
	return nil
}

// Digest hashes the complete observable simulator state.
func (r *Runner) Digest() string {
	h := sha256.New()
	vm := r.VM
	w := func(format string, a ...interface{}) { fmt.Fprintf(h, format, a...) }
	for i, p := range vm.Processors {
		w("P%d pc=%d dc=%d|", i, p.Pc, p.DelayCounter)
		for _, x := range p.Registers {
			w("%d,", U64(x))
		}
		for _, x := range p.Memory {
			w("%d,", U64(x))
		}
		for _, x := range p.Inputs {
			w("%d,", U64(x))
		}
		for _, x := range p.Outputs {
			w("%d,", U64(x))
		}
		w("%v%v%v%v|", p.InputsValid, p.OutputsValid, p.InputsRecv, p.OutputsRecv)
		ks := make([]string, 0, len(p.DeferredInstructions))
		for k := range p.DeferredInstructions {
			ks = append(ks, k)
		}
		sort.Strings(ks)
		w("%v|", ks)
		es := make([]string, 0, len(p.Extra_states))
		for k, v := range p.Extra_states {
			es = append(es, fmt.Sprintf("%s=%v", k, v))
		}
		sort.Strings(es)
		w("%v|", es)
	}
	for _, x := range vm.Inputs_regs {
		w("%d,", U64(x))
	}
	for _, x := range vm.Outputs_regs {
		w("%d,", U64(x))
	}
	for _, x := range vm.Internal_inputs_regs {
		w("%d,", U64(x))
	}
	for _, x := range vm.Internal_outputs_regs {
		w("%d,", U64(x))
	}
	w("%v%v%v%v%v%v%v%v", vm.InputsValid, vm.OutputsValid, vm.InternalInputsValid, vm.InternalOutputsValid,
		vm.InputsRecv, vm.OutputsRecv, vm.InternalInputsRecv, vm.InternalOutputsRecv)
	return hex.EncodeToString(h.Sum(nil)[:8])
}
