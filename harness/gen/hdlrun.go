package gen

import (
	"fmt"

	"verifharness/vlog"
)

// HDLRunner drives the elaborated top-level module `bondmachine` with the same protocol-abiding
// environment as Runner (streams on the external inputs, stalls on the external outputs) and
// records what is delivered on every external output.
type HDLRunner struct {
	Sim   *vlog.Sim
	Spec  BMSpec
	Env   Env
	Out   [][]uint64
	Sent  []int
	Cycle int

	inWait   []int
	inActive []bool
	outWait  []int
	outRecv  []bool
}

// NewHDLRunner parses and elaborates the file set and applies reset.
func NewHDLRunner(files map[string]string, spec BMSpec, env Env) (*HDLRunner, error) {
	d, diags := vlog.ParseDesignOpts(files, vlog.ParseOpts{HonorTranslateOff: true})
	for _, dg := range diags {
		if dg.Class == vlog.ClassSyntax {
			return nil, fmt.Errorf("syntax: %v", dg)
		}
	}
	sim, err := vlog.Elaborate(d, "bondmachine", nil)
	if err != nil {
		return nil, err
	}
	r := &HDLRunner{Sim: sim, Spec: spec, Env: env}
	r.Out = make([][]uint64, spec.Outputs)
	r.Sent = make([]int, spec.Inputs)
	r.inWait = make([]int, spec.Inputs)
	r.inActive = make([]bool, spec.Inputs)
	r.outWait = make([]int, spec.Outputs)
	r.outRecv = make([]bool, spec.Outputs)
	for i := 0; i < spec.Inputs; i++ {
		sim.Set(fmt.Sprintf("i%d", i), 0)
		sim.Set(fmt.Sprintf("i%d_valid", i), 0)
	}
	for o := 0; o < spec.Outputs; o++ {
		sim.Set(fmt.Sprintf("o%d_received", o), 0)
	}
	sim.Set("reset", 1)
	if err := sim.Tick("clk"); err != nil {
		return nil, err
	}
	if err := sim.Tick("clk"); err != nil {
		return nil, err
	}
	sim.Set("reset", 0)
	if err := sim.Settle(); err != nil {
		return nil, err
	}
	return r, nil
}

// Step = environment on inputs, one clock cycle, environment on outputs.
func (r *HDLRunner) Step() error {
	s := r.Sim
	for i := 0; i < r.Spec.Inputs; i++ {
		recv := s.Get(fmt.Sprintf("i%d_received", i)) == 1
		if r.inActive[i] && recv {
			s.Set(fmt.Sprintf("i%d_valid", i), 0)
			r.inActive[i] = false
			r.Sent[i]++
			g := 0
			if i < len(r.Env.InGap) {
				g = r.Env.InGap[i]
			}
			r.inWait[i] = g
			continue
		}
		if !r.inActive[i] && !recv {
			if r.inWait[i] > 0 {
				r.inWait[i]--
				continue
			}
			if i < len(r.Env.In) && r.Sent[i] < len(r.Env.In[i]) {
				s.Set(fmt.Sprintf("i%d", i), r.Env.In[i][r.Sent[i]])
				s.Set(fmt.Sprintf("i%d_valid", i), 1)
				r.inActive[i] = true
			}
		}
	}
	if err := s.Tick("clk"); err != nil {
		return err
	}
	for o := 0; o < r.Spec.Outputs; o++ {
		valid := s.Get(fmt.Sprintf("o%d_valid", o)) == 1
		if valid {
			if !r.outRecv[o] {
				st := 0
				if o < len(r.Env.OutStall) {
					st = r.Env.OutStall[o]
				}
				if r.outWait[o] < st {
					r.outWait[o]++
					continue
				}
				r.outRecv[o] = true
				s.Set(fmt.Sprintf("o%d_received", o), 1)
				r.Out[o] = append(r.Out[o], s.Get(fmt.Sprintf("o%d", o)))
				r.outWait[o] = 0
			}
		} else {
			r.outRecv[o] = false
			s.Set(fmt.Sprintf("o%d_received", o), 0)
			r.outWait[o] = 0
		}
	}
	if err := s.Settle(); err != nil {
		return err
	}
	r.Cycle++
	return nil
}
