// Package gen holds generators and builders shared between property packages.
package gen

import (
	"fmt"
	"sort"
	"strconv"
	"strings"

	"github.com/BondMachineHQ/BondMachine/pkg/bondmachine"
	"github.com/BondMachineHQ/BondMachine/pkg/procbuilder"
	"pgregory.net/rapid"
)

// ProcSpec describes one processor as data.
type ProcSpec struct {
	R, N, M, L, O int
	Ops           []string // opcode names (sorted by Build)
	Prog          []string // assembly lines
	Shared        string   `json:",omitempty"` // Arch.Shared_constraints (shared objects the opcodes of Prog talk to)
}

// BMSpec describes a whole machine as data.
type BMSpec struct {
	// SOs: shared objects (the textual form Add_shared_objects accepts); SOLinks: {processor, shared object}
	// attachments in order. The processors' ProcSpec.Shared must name what their opcodes talk to.
	SOs     []string `json:",omitempty"`
	SOLinks [][2]int `json:",omitempty"`
	Rsize   int
	Procs   []ProcSpec
	Inputs  int
	Outputs int
	Bonds   [][2]string // {sink (internal input name), source (internal output name)}
	// ShareDomains: processors with identical specs are instances of ONE domain (a replicated core),
	// as the CLI's -add-processor <domain> allows; otherwise every processor gets a domain of its own.
	ShareDomains bool `json:",omitempty"`
	// DomainOrder, when set, is a permutation of the processor indices: the domains are created in that
	// order, so a processor's domain id differs from its own index (as after -add-processor in any order).
	DomainOrder []int `json:",omitempty"`
}

// OpByName looks an opcode up in the static registry.
func OpByName(n string) procbuilder.Opcode {
	for _, op := range procbuilder.Allopcodes {
		if op.Op_get_name() == n {
			return op
		}
	}
	return nil
}

// NeededBits: smallest b≥1 with 2^b ≥ n.
func NeededBits(n int) int {
	b := 1
	for (1 << uint(b)) < n {
		b++
	}
	return b
}

// BuildProc makes a procbuilder.Machine (assembling the program with the real assembler).
func BuildProc(rsize int, ps ProcSpec) (*procbuilder.Machine, error) {
	m := new(procbuilder.Machine)
	a := &m.Arch
	a.Rsize = uint8(rsize)
	a.Modes = []string{"ha"}
	a.R, a.N, a.M, a.L, a.O = uint8(ps.R), uint8(ps.N), uint8(ps.M), uint8(ps.L), uint8(ps.O)
	names := append([]string(nil), ps.Ops...)
	sort.Strings(names)
	var ops []procbuilder.Opcode
	last := ""
	for _, n := range names {
		if n == last {
			continue
		}
		last = n
		op := OpByName(n)
		if op == nil {
			return nil, fmt.Errorf("unknown opcode %q", n)
		}
		ops = append(ops, op)
	}
	sort.Sort(procbuilder.ByName(ops))
	a.Op = ops
	a.Shared_constraints = ps.Shared
	prog, err := a.Assembler([]byte(strings.Join(ps.Prog, "\n") + "\n"))
	if err != nil {
		return nil, err
	}
	m.Program = prog
	return m, nil
}

// Build makes the bondmachine through the public editing API.
func Build(s BMSpec) (*bondmachine.Bondmachine, error) {
	bm := new(bondmachine.Bondmachine)
	bm.Rsize = uint8(s.Rsize)
	bm.Init()
	domOf := map[string]int{}
	procDom := make([]int, len(s.Procs))
	order := make([]int, len(s.Procs))
	for i := range order {
		order[i] = i
	}
	if len(s.DomainOrder) == len(s.Procs) {
		seen := map[int]bool{}
		ok := true
		for _, x := range s.DomainOrder {
			if x < 0 || x >= len(s.Procs) || seen[x] {
				ok = false
			}
			seen[x] = true
		}
		if ok {
			order = s.DomainOrder
		}
	}
	// domains first, in the requested order
	for _, i := range order {
		ps := s.Procs[i]
		key := fmt.Sprintf("%+v", ps)
		dom, shared := domOf[key]
		if !s.ShareDomains || !shared {
			m, err := BuildProc(s.Rsize, ps)
			if err != nil {
				return nil, fmt.Errorf("proc %d: %v", i, err)
			}
			bm.Domains = append(bm.Domains, m)
			dom = len(bm.Domains) - 1
			domOf[key] = dom
		}
		procDom[i] = dom
	}
	// then the processors in index order
	for i := range s.Procs {
		if _, err := bm.Add_processor(procDom[i]); err != nil {
			return nil, err
		}
	}
	for i := 0; i < s.Inputs; i++ {
		bm.Add_input()
	}
	for i := 0; i < s.Outputs; i++ {
		bm.Add_output()
	}
	for _, b := range s.Bonds {
		bm.Add_bond([]string{b[0], b[1]})
	}
	if len(s.SOs) > 0 {
		bm.Add_shared_objects(s.SOs)
		if len(bm.Shared_objects) != len(s.SOs) {
			return nil, fmt.Errorf("shared objects %q: %d accepted", s.SOs, len(bm.Shared_objects))
		}
		for _, l := range s.SOLinks {
			bm.Connect_processor_shared_object([]string{strconv.Itoa(l[0]), strconv.Itoa(l[1])})
		}
	}
	return bm, nil
}

// UsedOps extracts the opcode names of a program.
func UsedOps(prog []string) []string {
	seen := map[string]bool{}
	var r []string
	for _, l := range prog {
		f := strings.Fields(l)
		if len(f) > 0 && !seen[f[0]] {
			seen[f[0]] = true
			r = append(r, f[0])
		}
	}
	sort.Strings(r)
	return r
}

// ---------------------------------------------------------------------------
// Dataflow-shaped handshaked machines (the C02 shape): a DAG of processors; every
// processor reads each of its inputs once (i2rw), computes, writes each of its outputs once
// (r2owa) and loops. Every processor input has exactly one source, every processor output
// and every external input at least one sink, so a protocol-abiding environment keeps the
// machine live.

// ALUOps is the set of non-IO opcodes whose simulator body is faithful at every register size.
var ALUOps = []string{"inc", "dec", "add", "cpy", "clr", "rset", "mult", "nop"}

type HSOptions struct {
	MaxProcs   int
	MaxIn      int // per processor
	MaxOut     int
	MaxPad     int // non-IO instructions per slot
	MinPad     int // at least this many after every IO instruction (4 keeps clear of the recorded handshake findings)
	Rsizes     []int
	ExtraALU   []string // additional two-register opcodes mixed into the padding (e.g. addp, multp)
	RichALU    bool     // also draw the co-implemented logic/shift/carry/pipelined opcodes valid for the register size
	Replicate  bool     // sometimes make a processor an exact replica of an earlier one (same domain)
	EqualLoops bool     // pad every loop to the same length (consumers of a fan-out advance at equal speed)
	NoFanout   bool
	RAM        bool // sometimes give a processor a data memory (L 1..3): more ports on the processor, none used by the program
	UnusedIO   bool // sometimes give a processor IO opcodes its program never executes (i2r next to i2rw, r2o next to r2owa): the shared parts of their hardware templates are emitted by whichever opcode comes first
	LFSR       bool // sometimes attach an lfsr8 shared object to some processors, which read it (lfsr82r) among their ALU instructions
	Thru       bool // sometimes bond an external input straight to a fresh external output as well (pass-through, fan-out of the input)
}

// RichOps lists further opcodes that both back-ends implement (C01's co-implemented table).
var richAll = []string{"cir", "mulc", "addp", "multp"}
var richSmall = []string{"and", "or", "xor", "nand", "nor", "xnor", "not", "adc", "sbc", "rsc", "cil", "incc", "cilc", "cirn"}

func genALU(t *rapid.T, nreg int, rsize int, extra []string) string {
	ops := ALUOps
	if len(extra) > 0 {
		ops = append(append([]string(nil), ALUOps...), extra...)
	}
	op := rapid.SampledFrom(ops).Draw(t, "alu")
	r := func(l string) string { return fmt.Sprintf("r%d", rapid.IntRange(0, nreg-1).Draw(t, l)) }
	switch op {
	case "inc", "dec", "clr", "cir", "cil", "cirn", "incc", "cilc":
		return op + " " + r("ra")
	case "add", "cpy", "mult", "addp", "multp", "divp", "mulc", "and", "or", "xor", "nand", "nor", "xnor", "not", "adc", "sbc", "rsc":
		return op + " " + r("ra") + " " + r("rb")
	case "lfsr82r":
		return "lfsr82r " + r("ra") + " lfsr80"
	case "rset":
		max := 255
		if rsize < 8 {
			max = (1 << uint(rsize)) - 1
		}
		return fmt.Sprintf("rset %s %d", r("ra"), rapid.IntRange(0, max).Draw(t, "imm"))
	}
	return "nop"
}

// HandshakeMachine draws a live dataflow-shaped machine.
func HandshakeMachine(t *rapid.T, o HSOptions) BMSpec {
	if o.MaxProcs == 0 {
		o.MaxProcs = 4
	}
	if o.MaxIn == 0 {
		o.MaxIn = 2
	}
	if o.MaxOut == 0 {
		o.MaxOut = 2
	}
	if len(o.Rsizes) == 0 {
		o.Rsizes = []int{8, 16, 32, 64}
	}
	if o.MaxPad < o.MinPad {
		o.MaxPad = o.MinPad
	}
	var s BMSpec
	s.Rsize = rapid.SampledFrom(o.Rsizes).Draw(t, "rsize")
	if o.RichALU {
		o.ExtraALU = append(append([]string(nil), o.ExtraALU...), richAll...)
		if s.Rsize <= 16 {
			o.ExtraALU = append(o.ExtraALU, richSmall...)
		}
	}
	np := rapid.IntRange(1, o.MaxProcs).Draw(t, "nprocs")
	lfsr := ""
	if o.LFSR && rapid.IntRange(0, 2).Draw(t, "lfsr") == 0 {
		lfsr = fmt.Sprintf("lfsr8:%d", rapid.IntRange(1, 255).Draw(t, "lfsrseed"))
		s.SOs = []string{lfsr}
	}
	type src struct {
		name  string
		sinks int
		rank  int
	}
	var sources []*src
	for p := 0; p < np; p++ {
		var ps ProcSpec
		ps.R = rapid.IntRange(1, 2).Draw(t, "R")
		nreg := 1 << uint(ps.R)
		minIn := 0
		ps.N = rapid.IntRange(minIn, o.MaxIn).Draw(t, "N")
		ps.M = rapid.IntRange(1, o.MaxOut).Draw(t, "M")
		extra := o.ExtraALU
		if lfsr != "" && (p == 0 || rapid.Bool().Draw(t, "readslfsr")) {
			ps.Shared = lfsr
			s.SOLinks = append(s.SOLinks, [2]int{p, 0})
			extra = append(append([]string(nil), extra...), "lfsr82r", "lfsr82r")
		}
		ps.L = 0
		if o.RAM && rapid.IntRange(0, 2).Draw(t, "hasram") == 0 {
			ps.L = rapid.IntRange(1, 3).Draw(t, "L")
		}
		// bonds for the inputs. Bonds are rendezvous channels, so a processor reads its inputs in
		// the global order of their sources (external inputs first, then (processor, output) ascending)
		// and producers write their outputs in index order: with every process ordering its
		// transfers consistently with one global order the network cannot deadlock.
		var picked []*src
		for k := 0; k < ps.N; k++ {
			var candidates []*src
			for _, c := range sources {
				if o.NoFanout && c.sinks > 0 {
					continue
				}
				candidates = append(candidates, c)
			}
			pick := -1
			if len(candidates) > 0 {
				pick = rapid.IntRange(-1, len(candidates)-1).Draw(t, "src")
			}
			if pick < 0 {
				// a fresh external input
				c := &src{name: fmt.Sprintf("i%d", s.Inputs), sinks: 1, rank: -1}
				s.Inputs++
				sources = append(sources, c)
				picked = append(picked, c)
			} else {
				candidates[pick].sinks++
				picked = append(picked, candidates[pick])
			}
		}
		sort.SliceStable(picked, func(a, b int) bool { return picked[a].rank < picked[b].rank })
		for k, c := range picked {
			s.Bonds = append(s.Bonds, [2]string{fmt.Sprintf("p%di%d", p, k), c.name})
		}
		// program
		var prog []string
		for i, n := 0, rapid.IntRange(0, o.MaxPad).Draw(t, "prologue"); i < n; i++ {
			prog = append(prog, genALU(t, nreg, s.Rsize, extra))
		}
		loop := len(prog)
		for k := 0; k < ps.N; k++ {
			prog = append(prog, fmt.Sprintf("i2rw r%d i%d", rapid.IntRange(0, nreg-1).Draw(t, "rin"), k))
			for i, n := 0, rapid.IntRange(o.MinPad, o.MaxPad).Draw(t, "pad"); i < n; i++ {
				prog = append(prog, genALU(t, nreg, s.Rsize, extra))
			}
		}
		for k := 0; k < ps.M; k++ {
			prog = append(prog, fmt.Sprintf("r2owa r%d o%d", rapid.IntRange(0, nreg-1).Draw(t, "rout"), k))
			for i, n := 0, rapid.IntRange(o.MinPad, o.MaxPad).Draw(t, "pad"); i < n; i++ {
				prog = append(prog, genALU(t, nreg, s.Rsize, extra))
			}
		}
		prog = append(prog, fmt.Sprintf("j %d", loop))
		ps.Prog = prog
		s.Procs = append(s.Procs, ps)
		for k := 0; k < ps.M; k++ {
			sources = append(sources, &src{name: fmt.Sprintf("p%do%d", p, k), rank: p*16 + k})
		}
	}
	// every processor output needs a sink; optionally extra external outputs on already consumed sources
	for _, c := range sources {
		if strings.HasPrefix(c.name, "i") {
			continue
		}
		extra := false
		if c.sinks > 0 && !o.NoFanout {
			extra = rapid.IntRange(0, 3).Draw(t, "extraout") == 0
		}
		if c.sinks == 0 || extra {
			s.Bonds = append(s.Bonds, [2]string{fmt.Sprintf("o%d", s.Outputs), c.name})
			s.Outputs++
			c.sinks++
		}
	}
	if o.Thru && s.Inputs > 0 && !o.NoFanout && rapid.IntRange(0, 2).Draw(t, "thru") == 0 {
		s.Bonds = append(s.Bonds, [2]string{fmt.Sprintf("o%d", s.Outputs), fmt.Sprintf("i%d", rapid.IntRange(0, s.Inputs-1).Draw(t, "thruin"))})
		s.Outputs++
	}
	if o.EqualLoops {
		max := 0
		for _, ps := range s.Procs {
			if len(ps.Prog) > max {
				max = len(ps.Prog)
			}
		}
		for i := range s.Procs {
			ps := &s.Procs[i]
			for len(ps.Prog) < max {
				// insert nops just before the closing jump
				j := ps.Prog[len(ps.Prog)-1]
				ps.Prog = append(ps.Prog[:len(ps.Prog)-1], "nop", j)
			}
		}
	}
	if o.Replicate {
		for i := 1; i < len(s.Procs); i++ {
			for j := 0; j < i; j++ {
				if s.Procs[i].R == s.Procs[j].R && s.Procs[i].N == s.Procs[j].N && s.Procs[i].M == s.Procs[j].M && s.Procs[i].L == s.Procs[j].L && s.Procs[i].Shared == s.Procs[j].Shared &&
					rapid.IntRange(0, 1).Draw(t, "replica") == 1 {
					s.Procs[i].Prog = append([]string(nil), s.Procs[j].Prog...)
					s.ShareDomains = true
					break
				}
			}
		}
	}
	if o.Replicate && len(s.Procs) >= 2 && rapid.Bool().Draw(t, "shuffledomains") {
		s.DomainOrder = rapid.Permutation(seqInts(len(s.Procs))).Draw(t, "domainorder")
	}
	for i := range s.Procs {
		ps := &s.Procs[i]
		ps.Ops = UsedOps(ps.Prog)
		if o.UnusedIO && rapid.IntRange(0, 2).Draw(t, "unusedio") == 0 {
			if ps.N > 0 && rapid.Bool().Draw(t, "unused-i2r") {
				ps.Ops = append(ps.Ops, "i2r")
			}
			if ps.M > 0 && rapid.Bool().Draw(t, "unused-r2o") {
				ps.Ops = append(ps.Ops, "r2o")
			}
			sort.Strings(ps.Ops)
		}
		ps.O = NeededBits(len(ps.Prog))
		if ps.N == 0 {
			// Inputs_bits etc. handle zero; nothing to do
		}
	}
	return s
}

func seqInts(n int) []int {
	r := make([]int, n)
	for i := range r {
		r[i] = i
	}
	return r
}
