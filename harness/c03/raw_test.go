// Raw byte-string lines on a few fixed architectures: the pbt entry "rawlines"
// (mutated lines, counted) and the native fuzz target FuzzAssemblerLine share
// checkRaw.
//
// The statement speaks about *syntactically valid* lines. A raw line is valid when
// it lexes as "<opcode of the architecture> <operands>" with the right number of
// operands and every operand token has the shape of its kind (rN / iN / oN /
// <so>N / an integer literal read by exactly one bmnumbers integer matcher). Valid
// lines go through the full line oracle. Everything else is outside the statement:
// a panic there is counted ("garbage:panic"), not reported; the only thing demanded
// of a non-valid line that the assembler accepts is the width law, and only when
// no token is number-like (a number-like token in a non-valid line can be a float
// or a fixed-point literal, i.e. the D1 mechanism through another door).
package c03

import (
	"math/big"
	"regexp"
	"strconv"
	"strings"
	"testing"
	"unicode/utf8"

	"github.com/BondMachineHQ/BondMachine/pkg/bmnumbers"
	"pgregory.net/rapid"
	"verifharness/pbt"
)

var fixedArchs = []ArchSpec{
	{Rsize: 8, R: 1, N: 1, M: 1, L: 0, O: 3, Mode: "ha", WordExtra: -1,
		Ops: []string{"add", "clr", "cpy", "dec", "i2r", "inc", "j", "jz", "nop", "r2o", "rset"}},
	{Rsize: 16, R: 3, N: 3, M: 2, L: 3, O: 5, Mode: "ha", WordExtra: 0, Ops: nil, // nil: every opcode (filled in init)
		Shared: "channel:,stack:8,queue:8,channel:,uart:9600:8,stack:8,kbd:8,lfsr8:1,stack:8,barrier:100"},
	{Rsize: 32, R: 2, N: 2, M: 4, L: 4, O: 2, Mode: "hy", WordExtra: 2,
		Ops: []string{"calla8st", "callo8st", "cmpv", "hlt", "ja", "jo", "m2r", "push8st", "r2m", "ret8st", "rsets5", "sicv2", "wrd"}, Shared: "channel:"},
	{Rsize: 64, R: 4, N: 4, M: 0, L: 2, O: 6, Mode: "vn", WordExtra: -1,
		Ops: []string{"addfps8f4", "i2rw", "j", "jc", "r2v", "ro2r", "rset", "rsets12", "saj", "xor"}},
}

var builtFixed []*builtArch

func init() {
	fixedArchs[1].Ops = append([]string(nil), allNames...)
	for _, a := range fixedArchs {
		b, why := buildArch(a)
		if b == nil {
			panic("fixed architecture does not build: " + why)
		}
		builtFixed = append(builtFixed, b)
	}
}

// integer matchers of bmnumbers (type_unsigned.go:29-38, type_hex.go:27-28, type_bin.go:26-27, type_signed.go:26-27)
var integerMatchers = map[string]bool{
	"^(?P<uint>[0-9]+)$": true, "^0u(?P<uint>[0-9]+)$": true, "^0d(?P<uint>[0-9]+)$": true,
	"^0u(?P<uint>[0-9]+).0+$": true, "^0d(?P<uint>[0-9]+).0+$": true,
	"^0u<(?P<size>[0-9]+)>(?P<uint>[0-9]+)$": true, "^0d<(?P<size>[0-9]+)>(?P<uint>[0-9]+)$": true,
	"^0x(?P<hex>[0-9a-fA-F]+)$": true, "^0x<(?P<bits>[0-9]+)>(?P<hex>[0-9a-fA-F]+)$": true,
	"^0b(?P<bin>[0-1]+)$": true, "^0b<(?P<bits>[0-9]+)>(?P<bin>[0-1]+)$": true,
	"^0s(?P<int>-?[0-9]+)$": true, "^0sd(?P<int>-?[0-9]+)$": true,
}

var (
	hugeSizeRe = regexp.MustCompile(`<[0-9]{4,}`)   // 0x<800000000>ff allocates that many bytes (type_hex.go:83): harness safety
	dynLitRe   = regexp.MustCompile(`(^|\s)0(f|l)`) // float / fixed-point / quantizer literals: importing some of them registers new types
)

// denotes returns the bit pattern a numeric token stands for, when exactly one integer matcher reads it.
func denotes(tok string) (*big.Int, string) {
	ms := matchersOf(tok)
	if len(ms) == 0 {
		return nil, "not-a-number"
	}
	if len(ms) > 1 {
		return nil, "ambiguous-literal"
	}
	if !integerMatchers[ms[0]] {
		return nil, "non-integer-literal"
	}
	n, err := bmnumbers.AllMatchers[ms[0]](matcherRes[ms[0]], tok)
	if err != nil {
		return nil, "literal-refused" // e.g. 0u<4>300, decimal beyond 2^64: the assembler must refuse the line too
	}
	bin, err := n.ExportBinary(false)
	if err != nil {
		return nil, "literal-refused"
	}
	v, ok := new(big.Int).SetString(bin, 2)
	if !ok {
		return nil, "literal-refused"
	}
	return v, ""
}

// parseRaw lexes a raw line against architecture b. why != "" means "not a valid line" and says why.
func parseRaw(b *builtArch, raw string) (ln LineSpec, why string) {
	low := strings.ToLower(raw)
	words := strings.Fields(low)
	if len(words) == 0 {
		return ln, "empty"
	}
	if words[0][0] == '#' {
		return ln, "comment"
	}
	if _, ok := b.index[words[0]]; !ok {
		return ln, "unknown-opcode"
	}
	fam, _ := familyOf(words[0])
	row := operandKinds[fam]
	if row.stub {
		return ln, "stub"
	}
	if len(words)-1 != len(row.kinds) {
		return ln, "arity"
	}
	ln.Op = words[0]
	ln.RawText = raw
	for i, k := range row.kinds {
		tok := words[i+1]
		o := Operand{Kind: string(k), Raw: tok, How: "raw"}
		if k.numeric() {
			v, bad := denotes(tok)
			if bad == "literal-refused" {
				// a literal its own importer refuses: the line must be an error; modelled as a value nothing can hold
				v = pow2(200)
			} else if bad != "" {
				return LineSpec{}, bad
			}
			o.Val = v.String()
		} else {
			p := prefixOf(k)
			if !strings.HasPrefix(tok, p) {
				return LineSpec{}, "operand-shape"
			}
			digits := tok[len(p):]
			if digits == "" || strings.Trim(digits, "0123456789") != "" {
				return LineSpec{}, "operand-shape"
			}
			n, err := strconv.ParseUint(digits, 10, 64)
			if err != nil {
				n = 1<<64 - 1 // more digits than uint64 holds: beyond every limit
			} else if strconv.FormatUint(n, 10) != digits {
				// "r01": the shape of a register with a leading zero; the assembler compares names, so it may only refuse it
				n = 1<<64 - 1
			}
			o.Idx = n
		}
		ln.Operands = append(ln.Operands, o)
	}
	return ln, ""
}

type rawVerdict struct {
	Labels   []string
	NT       bool
	Excluded string
	Fail     *pbt.Failure
}

func checkRaw(archID int, raw string) (rv rawVerdict) {
	if archID < 0 || archID >= len(builtFixed) {
		rv.Excluded = "invalid-case:arch"
		return
	}
	b := builtFixed[archID]
	if len(raw) > 200 || strings.ContainsAny(raw, "\n") {
		rv.Excluded = "out-of-domain:line-length-or-newline"
		return
	}
	low := strings.ToLower(raw)
	if hugeSizeRe.MatchString(low) {
		rv.Excluded = "out-of-domain:huge-size-annotation"
		return
	}
	if dynLitRe.MatchString(low) {
		rv.Excluded = "out-of-domain:float-or-dynamic-literal"
		return
	}
	ln, why := parseRaw(b, raw)
	if why == "" {
		v := judgeLine(b, ln, false)
		rv.Labels = append(rv.Labels, "valid")
		rv.Labels = append(rv.Labels, v.Labels...)
		rv.NT, rv.Excluded, rv.Fail = v.NT, v.Excluded, v.Fail
		return
	}
	rv.Labels = append(rv.Labels, "notvalid:"+why)
	w, err, pan := asmLine(b, raw)
	switch {
	case pan != nil:
		rv.Labels = append(rv.Labels, "garbage:panic")
	case err != nil:
		rv.Labels = append(rv.Labels, "garbage:rejected")
	case w == "":
		rv.Labels = append(rv.Labels, "garbage:blank-or-comment")
		if why != "empty" && why != "comment" {
			rv.Fail = pbt.Failf("len:garbage", "arch %d: %q (%s) is accepted with an empty word", archID, raw, why)
		}
	default:
		rv.Labels = append(rv.Labels, "garbage:accepted:"+why)
		numberLike := false
		words := strings.Fields(low)
		for _, t := range words[1:] {
			if len(matchersOf(t)) > 0 {
				numberLike = true
			}
		}
		if words[0] == "tsp" || numberLike {
			return // known classes through another door
		}
		if mw := b.m.Arch.Max_word(); len(w) != mw || !only01(w) {
			rv.Fail = pbt.Failf("len:garbage", "arch %d: %q (%s) is accepted as %q: %d bits, Max_word is %d", archID, raw, why, w, len(w), mw)
		}
	}
	return
}

// ---------------------------------------------------------------------------
// pbt entry

type RawCase struct {
	Arch int
	Text string
}

var junkTokens = []string{"r0", "r1", "R7", "i0", "i9", "o0", "o3", "ch0", "ch1", "st2", "q0", "u0", "k0", "lfsr80", "0", "1", "7", "255", "300", "0x1f", "0XFF", "0b101",
	"0u<8>300", "0u<8>255", "0d12", "0s5", "0s-1", "0sd-3", "-1", "+1", "r", "r-1", "r01", "i", "o", "0x", "0b", "0b2", "<", ">", "#", "#x", ",", "r0,", "rset", "nop", "\x00", "é", "r١", "0u100", "0d1.0"}

func genRaw(t *rapid.T) RawCase {
	var c RawCase
	c.Arch = rapid.IntRange(0, len(fixedArchs)-1).Draw(t, "arch")
	b := builtFixed[c.Arch]
	if rapid.IntRange(0, 9).Draw(t, "pure") == 0 {
		c.Text = rapid.StringN(0, 24, -1).Draw(t, "text")
		if strings.ContainsAny(c.Text, "\n") {
			c.Text = strings.ReplaceAll(c.Text, "\n", " ")
		}
		return c
	}
	op := b.spec.Ops[int(rapid.Uint64().Draw(t, "op")%uint64(len(b.spec.Ops)))]
	ln := genLine(t, b, op, false, true, false, false)
	fam, _ := familyOf(op)
	text, _ := renderLine(operandKinds[fam].kinds, ln)
	nm := pick(t, "nmut", []int{0, 0, 0, 1, 1, 2, 3})
	for i := 0; i < nm; i++ {
		words := strings.Fields(text)
		switch pick(t, "mut", []string{"delchar", "inschar", "junktok", "droptok", "duptok", "swaptok", "truncate", "hash", "case"}) {
		case "delchar":
			if len(text) > 0 {
				p := rapid.IntRange(0, len(text)-1).Draw(t, "pos")
				text = text[:p] + text[p+1:]
			}
		case "inschar":
			p := rapid.IntRange(0, len(text)).Draw(t, "pos")
			ch := rapid.RuneFrom([]rune(" \trio0123456789xbudsc<>#-+.,_\x00é")).Draw(t, "ch")
			text = text[:p] + string(ch) + text[p:]
		case "junktok":
			if len(words) > 0 {
				p := rapid.IntRange(0, len(words)-1).Draw(t, "pos")
				words[p] = pick(t, "junk", junkTokens)
				text = strings.Join(words, " ")
			}
		case "droptok":
			if len(words) > 1 {
				p := rapid.IntRange(0, len(words)-1).Draw(t, "pos")
				words = append(words[:p:p], words[p+1:]...)
				text = strings.Join(words, " ")
			}
		case "duptok":
			if len(words) > 0 {
				p := rapid.IntRange(0, len(words)-1).Draw(t, "pos")
				words = append(words[:p+1], words[p:]...)
				text = strings.Join(words, " ")
			}
		case "swaptok":
			if len(words) > 2 {
				words[1], words[len(words)-1] = words[len(words)-1], words[1]
				text = strings.Join(words, " ")
			}
		case "truncate":
			if len(text) > 0 {
				text = text[:rapid.IntRange(0, len(text)-1).Draw(t, "pos")]
			}
		case "hash":
			text = "#" + text
		case "case":
			text = strings.ToUpper(text)
		}
	}
	if !utf8.ValidString(text) {
		text = strings.ToValidUTF8(text, "?") // JSON round trip of the case must be lossless
	}
	c.Text = strings.ReplaceAll(text, "\n", " ")
	return c
}

func propRaw(c RawCase) pbt.Outcome {
	rv := checkRaw(c.Arch, c.Text)
	labels := append([]string{"arch:" + strconv.Itoa(c.Arch)}, rv.Labels...)
	return pbt.Outcome{NonTrivial: rv.NT, Labels: labels, Excluded: rv.Excluded, Fail: rv.Fail}
}

const ruleRaw = "4 fixed architectures; text = a generated line with 0..3 mutations (character delete/insert, junk token, token drop/dup/swap, truncation, '#', upper case) or a random string; " +
	"lines that lex as valid go through the full line oracle, the rest are counted (panic / rejected / accepted) and owe only the width law; non-trivial = valid line that assembled and passed, or was range-rejected"

// ---------------------------------------------------------------------------
// native fuzz target (thorough tier): go test ./c03 -run '^$' -fuzz FuzzAssemblerLine -fuzztime 60s

func FuzzAssemblerLine(f *testing.F) {
	for _, s := range []string{"rset r0 300", "rset r1 255", "nop", "add r0 r1", "j 7", "i2r r0 i0", "r2o r1 o0", "jz r0 0x3", "wrd r2 ch1", "rsets5 r0 0b11111",
		"callo8st 3", "ret8st", "m2r r0 0", "sicv2 r0 i0 i1", "RSET\tR0  0XFF", "# comment", "", "hlt r0", "tsp r0 1 1", "rset r0 0u<8>300", "rset r0 0s-1", "r2t r7 st2", "rset r0"} {
		f.Add([]byte(s))
	}
	f.Fuzz(func(t *testing.T, data []byte) {
		pbt.FuzzTrace(data)
		if !utf8.Valid(data) {
			return
		}
		for id := range builtFixed {
			rv := checkRaw(id, string(data))
			if rv.Fail != nil {
				t.Fatalf("arch %d line %q: %s (sig=%s)", id, data, rv.Fail.Msg, rv.Fail.Sig)
			}
		}
	})
}
