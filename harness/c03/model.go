// C03 — instruction encoding is a lossless, fixed-width, range-checked code.
//
// model.go: the case data types, the builder that turns an architecture
// description into a procbuilder.Machine, the reference notion of "fits its
// field", and the line oracle (judgeLine).
package c03

import (
	"fmt"
	"math/big"
	"os"
	"path/filepath"
	"regexp"
	"sort"
	"strconv"
	"strings"

	"github.com/BondMachineHQ/BondMachine/pkg/bmnumbers"
	"github.com/BondMachineHQ/BondMachine/pkg/procbuilder"
	"verifharness/pbt"
)

// ---------------------------------------------------------------------------
// case data (JSON-serialisable)

// ArchSpec describes one architecture.
type ArchSpec struct {
	Rsize, R, N, M, L, O int
	Mode                 string   // Modes[0]: ha | vn | hy
	Ops                  []string // opcode names; buildArch sorts them by name
	WordExtra            int      // -1: WordSize=0 (automatic); k>=0: WordSize = computed Max_word + k
	Shared               string   // Arch.Shared_constraints
	Tag                  string   // Arch.Tag ("" unless the r2v/vtextmem path is wanted)
}

// Operand is one operand of a line. Kind is informative (the oracle takes the
// kind from operandKinds); Idx is used by register/port/shared-object kinds,
// Val+Notation+Lead0 by numeric kinds. The text is rendered from these fields.
type Operand struct {
	Kind     string
	Idx      uint64 `json:",omitempty"`
	Val      string `json:",omitempty"` // non-negative integer, decimal
	Notation string `json:",omitempty"` // dec 0u 0d 0x 0b 0u<> 0d<> 0x<> 0b<> 0s 0sd
	Lead0    bool   `json:",omitempty"`
	How      string `json:",omitempty"` // generator's intent, label only: in / limit / limit+1 / huge / 300on8 ...
	Raw      string `json:",omitempty"` // verbatim token (raw-line entries): rendered instead of Idx/Val; Idx/Val still carry what it denotes
}

// LineSpec is one instruction line.
type LineSpec struct {
	Op       string
	Operands []Operand
	Upper    bool   `json:",omitempty"` // render in upper case (the assembler lower-cases)
	Sep      int    `json:",omitempty"` // 0: " "  1: "\t"  2: "  "  3: " \t "
	RawText  string `json:",omitempty"` // verbatim line (raw-line entries): used instead of the rendering
}

// Case is an architecture plus a short program.
type Case struct {
	Arch  ArchSpec
	Lines []LineSpec
	// Strict: judge the known-finding classes too (used by the entries dedicated to one
	// finding and by the files under replays/C03/known/). When false they are counted
	// as Excluded so that search continues behind them.
	Strict bool `json:",omitempty"`
	// Noise[i] is written before line i of the program handed to Arch.Assembler (the per-line results are
	// not affected): "" nothing, otherwise a comment line (# ...) or an empty / blank line. Noise[len(Lines)]
	// follows the last line.
	Noise []string `json:",omitempty"`
	// NoFinalNewline: the program text handed to Arch.Assembler does not end in a newline (a file saved by
	// an editor that does not add one): the last instruction counts all the same
	NoFinalNewline bool `json:",omitempty"`
}

// ---------------------------------------------------------------------------
// opcode registry (fixed at init, never mutated afterwards)

// dynamicNames: one (or a few) instance of every dynamic family, created through
// procbuilder.EventuallyCreateInstruction exactly as Machine_json.Dejsoner does.
var dynamicNames = []string{
	"rsets5", "rsets12", // dynamical_rsets.go: rsets(?P<s>[0-9]+)
	"callo8st", "calla8st", "ret8st", // dynamical_call.go: (callo|calla|ret)<stacksize><stackname>
	"push8st", "pull8st", // dynamical_stack.go: (push|pull)<stacksize><stackname>
	"addfps8f4", "multfps8f4", "divfps8f4", // dynamical_fixed_point.go: (add|mult|div)fps<s>f<f>
	"addfxps8f4", "multfxps8f4", "divfxps8f4", // dynamical_fxp.go: (add|mult|div)fxps<s>f<f>
	"addlqs8t1", "multlqs8t1", "divlqs8t1", // dynamical_linear_quantizer.go: (add|mult|div)lqs<s>t<t>, needs a range for index t
	"addflpe4f4", "multflpe4f4", "divflpe4f4", // dynamical_flopoco.go: (add|mult|div)flpe<e>f<f>, runs the external `flopoco`
}

var (
	opByName    = map[string]procbuilder.Opcode{}
	allNames    []string              // sorted; static + created dynamic
	uncreatable = map[string]string{} // dynamic name -> error text
)

var familyRes = []struct {
	re  *regexp.Regexp
	fam string
}{
	{regexp.MustCompile(`^rsets([0-9]+)$`), "rsets"},
	{regexp.MustCompile(`^callo[0-9]+[a-z_]+$`), "callo"},
	{regexp.MustCompile(`^calla[0-9]+[a-z_]+$`), "calla"},
	{regexp.MustCompile(`^ret[0-9]+[a-z_]+$`), "ret"},
	{regexp.MustCompile(`^push[0-9]+[a-z_]+$`), "push"},
	{regexp.MustCompile(`^pull[0-9]+[a-z_]+$`), "pull"},
	{regexp.MustCompile(`^(add|mult|div)fps[0-9]+f[0-9]+$`), "fps"},
	{regexp.MustCompile(`^(add|mult|div)fxps[0-9]+f[0-9]+$`), "fxps"},
	{regexp.MustCompile(`^(add|mult|div)lqs[0-9]+t[0-9]+$`), "lqs"},
	{regexp.MustCompile(`^(add|mult|div)flpe[0-9]+f[0-9]+$`), "flpe"},
}

// familyOf returns the operandKinds key of an opcode name and, for rsets<s>, s.
func familyOf(name string) (string, int) {
	if _, ok := operandKinds[name]; ok && !isFamilyKey(name) {
		return name, 0
	}
	for _, f := range familyRes {
		if m := f.re.FindStringSubmatch(name); m != nil {
			s := 0
			if f.fam == "rsets" {
				s, _ = strconv.Atoi(m[1])
			}
			return f.fam, s
		}
	}
	return "", 0
}

func isFamilyKey(n string) bool {
	switch n {
	case "rsets", "callo", "calla", "ret", "push", "pull", "fps", "fxps", "lqs", "flpe":
		return true
	}
	return false
}

func init() {
	// Linear quantizer: the CLIs (cmd/basm/main.go:73-86, cmd/bondmachine/bondmachine.go:233-246)
	// share the bmnumbers range table with procbuilder's DynLinearQuantizer; a range for index 1
	// is what `-linear-data-range 1,<file>` would load.
	for _, t := range bmnumbers.AllDynamicalTypes {
		if t.GetName() == "dyn_linear_quantizer" {
			rg := t.(bmnumbers.DynLinearQuantizer).Ranges
			(*rg)[1] = bmnumbers.LinearDataRange{Max: 1.0}
			for i, d := range procbuilder.AllDynamicalInstructions {
				if d.GetName() == "dyn_linear_quantizer" {
					di := d.(procbuilder.DynLinearQuantizer)
					di.Ranges = rg
					procbuilder.AllDynamicalInstructions[i] = di
				}
			}
		}
	}
	// FloPoCo: CreateInstruction shells out to `flopoco` (not installed) only to obtain VHDL
	// text and a pipeline depth; neither influences Assembler/Disassembler/length. A stand-in
	// script that prints the two lines the parser looks for lets the repo's own entry point
	// build the opcode. If that fails the family is recorded as uncreatable and skipped.
	restore := fakeFlopoco()
	for _, n := range dynamicNames {
		if _, err := procbuilder.EventuallyCreateInstruction(n); err != nil {
			uncreatable[n] = err.Error()
		}
	}
	restore()
	for _, op := range procbuilder.Allopcodes {
		n := op.Op_get_name()
		if _, dup := opByName[n]; dup {
			continue
		}
		opByName[n] = op
		allNames = append(allNames, n)
	}
	sort.Strings(allNames)
}

func fakeFlopoco() func() {
	dir, err := os.MkdirTemp("", "c03-flopoco")
	if err != nil {
		return func() {}
	}
	script := "#!/bin/sh\necho '-- stand-in' > flopoco.vhdl\necho 'Entity C03Stub'\necho 'Pipeline depth = 1'\n"
	if err := os.WriteFile(filepath.Join(dir, "flopoco"), []byte(script), 0o755); err != nil {
		os.RemoveAll(dir)
		return func() {}
	}
	old := os.Getenv("PATH")
	os.Setenv("PATH", dir+string(os.PathListSeparator)+old)
	return func() {
		os.Setenv("PATH", old)
		os.RemoveAll(dir)
	}
}

// ---------------------------------------------------------------------------
// architecture builder

type builtArch struct {
	m      *procbuilder.Machine
	index  map[string]int // opcode name -> position in Arch.Op
	spec   ArchSpec
	autoMW int // Max_word with WordSize == 0
}

func buildArch(s ArchSpec) (*builtArch, string) {
	switch s.Mode {
	case "ha", "vn", "hy":
	default:
		return nil, "mode"
	}
	if s.R < 1 || s.R > 6 || s.N < 0 || s.N > 16 || s.M < 0 || s.M > 16 || s.L < 0 || s.L > 16 || s.O < 1 || s.O > 16 ||
		s.Rsize < 1 || s.Rsize > 64 || len(s.Ops) == 0 || s.WordExtra < -1 || s.WordExtra > 64 {
		return nil, "geometry"
	}
	names := append([]string(nil), s.Ops...)
	sort.Strings(names)
	m := new(procbuilder.Machine)
	a := &m.Arch
	a.Modes = []string{s.Mode}
	a.Rsize, a.R, a.N, a.M = uint8(s.Rsize), uint8(s.R), uint8(s.N), uint8(s.M)
	a.L, a.O = uint8(s.L), uint8(s.O)
	a.Shared_constraints = s.Shared
	a.Tag = s.Tag
	idx := map[string]int{}
	for _, n := range names {
		if _, dup := idx[n]; dup {
			return nil, "duplicate-opcode"
		}
		op := opByName[n]
		if op == nil {
			return nil, "unknown-opcode"
		}
		idx[n] = len(a.Op)
		a.Op = append(a.Op, op)
	}
	sort.Sort(procbuilder.ByName(a.Op)) // what every producer in the repo does; a no-op after sort.Strings
	for i, op := range a.Op {
		if idx[op.Op_get_name()] != i {
			return nil, "sort-disagrees"
		}
	}
	b := &builtArch{m: m, index: idx, spec: s}
	b.autoMW = a.Max_word()
	if s.WordExtra >= 0 {
		if b.autoMW+s.WordExtra > 255 {
			return nil, "geometry"
		}
		a.WordSize = uint8(b.autoMW + s.WordExtra)
	}
	return b, ""
}

func sharedCount(shared, name string) int {
	n := 0
	for _, c := range strings.Split(shared, ",") {
		p := strings.Split(c, ":")
		if len(p) > 1 && p[0] == name {
			n++
		}
	}
	return n
}

// width of a numeric field, from the architecture (reference, written from the statement:
// "immediate wider than the register, jump target beyond the ROM", plus the Assembler bodies
// for which architectural quantity each field stands for).
func (b *builtArch) width(k kind, s int) int {
	a := b.spec
	maxOL := a.O
	if a.L > a.O {
		maxOL = a.L
	}
	switch k {
	case kImm:
		return a.Rsize
	case kImmS:
		return s
	case kRom:
		return a.O
	case kRam:
		return a.L
	case kLoc:
		switch a.Mode {
		case "vn":
			return a.L
		case "hy":
			return maxOL
		}
		return a.O
	case kLocO:
		if a.Mode == "hy" {
			return maxOL
		}
		return a.O
	case kNice:
		return 8
	case kVaddr:
		return 8
	}
	return 0
}

// limit of an index operand: indices 0..limit-1 exist.
func (b *builtArch) limit(k kind) uint64 {
	a := b.spec
	switch k {
	case kReg:
		return 1 << uint(a.R)
	case kIn:
		return uint64(a.N)
	case kOut:
		return uint64(a.M)
	}
	if so, ok := soOf[k]; ok {
		return uint64(sharedCount(a.Shared, so[0]))
	}
	return 0
}

func prefixOf(k kind) string {
	switch k {
	case kReg:
		return "r"
	case kIn:
		return "i"
	case kOut:
		return "o"
	}
	return soOf[k][1]
}

// ---------------------------------------------------------------------------
// rendering

func bigOf(s string) (*big.Int, bool) {
	if s == "" {
		return nil, false
	}
	for _, c := range s {
		if c < '0' || c > '9' {
			return nil, false
		}
	}
	v, ok := new(big.Int).SetString(s, 10)
	return v, ok
}

// renderNumber spells v in one of the integer notations of bmnumbers
// (type_unsigned.go, type_hex.go, type_bin.go, type_signed.go importMatchers).
func renderNumber(v *big.Int, notation string, lead0 bool) string {
	z := ""
	if lead0 {
		z = "0"
	}
	bl := v.BitLen()
	if bl == 0 {
		bl = 1
	}
	switch notation {
	case "0u", "0d":
		return notation + z + v.String()
	case "0x":
		return "0x" + z + v.Text(16)
	case "0b":
		return "0b" + z + v.Text(2)
	case "0u<>", "0d<>":
		// size 1..64 and value <= 2^size-1 or the importer refuses (type_unsigned.go:72-93)
		sz := bl
		if lead0 || sz > 64 {
			sz = 64
		}
		return notation[:2] + "<" + strconv.Itoa(sz) + ">" + v.String()
	case "0x<>":
		sz := (bl + 7) / 8 * 8 // multiple of 8, >= the digits given (type_hex.go:62-80)
		if lead0 {
			sz += 8
		}
		return "0x<" + strconv.Itoa(sz) + ">" + v.Text(16)
	case "0b<>":
		sz := bl
		if lead0 {
			sz += 3
		}
		return "0b<" + strconv.Itoa(sz) + ">" + v.Text(2)
	case "0s", "0sd":
		return notation + z + v.String()
	}
	return z + v.String()
}

func renderOperand(k kind, o Operand) (string, bool) {
	if o.Raw != "" {
		if k.numeric() {
			if _, ok := bigOf(o.Val); !ok {
				return "", false
			}
		}
		return o.Raw, true
	}
	if k.numeric() {
		v, ok := bigOf(o.Val)
		if !ok {
			return "", false
		}
		return renderNumber(v, o.Notation, o.Lead0), true
	}
	return prefixOf(k) + strconv.FormatUint(o.Idx, 10), true
}

var seps = []string{" ", "\t", "  ", " \t "}

func renderLine(kinds []kind, ln LineSpec) (string, bool) {
	sep := seps[((ln.Sep%len(seps))+len(seps))%len(seps)]
	parts := []string{ln.Op}
	for i, o := range ln.Operands {
		var k kind
		if i < len(kinds) {
			k = kinds[i]
		} else {
			k = kind(o.Kind) // surplus operand (arity class): rendered by its own kind
		}
		t, ok := renderOperand(k, o)
		if !ok {
			return "", false
		}
		parts = append(parts, t)
	}
	s := strings.Join(parts, sep)
	if ln.Upper {
		s = strings.ToUpper(s)
	}
	return s, true
}

// ---------------------------------------------------------------------------
// number literals: which matcher reads them (D2 guard) and what they denote

var (
	matcherKeys []string
	matcherRes  = map[string]*regexp.Regexp{}
)

func matchersOf(tok string) []string {
	if matcherKeys == nil {
		for k := range bmnumbers.AllMatchers {
			matcherKeys = append(matcherKeys, k)
			matcherRes[k] = regexp.MustCompile(k)
		}
		sort.Strings(matcherKeys)
	}
	var r []string
	for _, k := range matcherKeys {
		if matcherRes[k].MatchString(tok) {
			r = append(r, k)
		}
	}
	return r
}

// ---------------------------------------------------------------------------
// the line oracle

type lineVerdict struct {
	Text     string
	Accepted bool
	Word     string
	Fail     *pbt.Failure
	Excluded string
	Labels   []string
	NT       bool
	OutOfRng bool // the reference says at least one operand does not fit
	ArityOff bool
	FailKind string // operand kind the failure is attributed to (survey)
}

func asmLine(b *builtArch, text string) (w string, err error, pan any) {
	defer func() {
		if r := recover(); r != nil {
			pan = r
		}
	}()
	w, err = b.m.Arch.Assembler_process_line([]byte(text))
	return
}

func disasmWord(b *builtArch, w string) (s string, err error, pan any) {
	defer func() {
		if r := recover(); r != nil {
			pan = r
		}
	}()
	mm := *b.m
	mm.Program = procbuilder.Program{Slocs: []string{w}}
	s, err = mm.Disassembler()
	return
}

func only01(w string) bool {
	for i := 0; i < len(w); i++ {
		if w[i] != '0' && w[i] != '1' {
			return false
		}
	}
	return true
}

// known-finding classes, decided from the INPUT only (never from the outcome).
//
//	D1            a numeric operand whose value needs more bits than its field
//	tsp           every tsp line (no padding loop, no unknown-register check)
//	getid64       a numeric operand in a 64-bit field with bit 63 set (get_id accumulates in int)
//	m2rri-len     m2rri when 2R > R+O  (length function counts R+O, Assembler emits 2R)
//	modelen       ja/jcmpa in mode ha, jo/jcmpo in mode vn (length function returns 0)
//	r2v-vtm       r2v when a vtextmem box is bound to arch.Tag (field is Needed_bits(w*h), not 8)
const sigD1 = "D1:operand-overflow-lengthens-word"

func (b *builtArch) vtmBound() bool {
	for _, c := range strings.Split(b.spec.Shared, ",") {
		p := strings.Split(c, ":")
		if len(p) > 1 && p[0] == "vtextmem" && (len(p)-1)%5 == 0 {
			for i := 1; i+4 < len(p); i += 5 {
				if p[i] == b.spec.Tag {
					return true
				}
			}
			return false // soLists returns the first vtextmem constraint only
		}
	}
	return false
}

func (b *builtArch) modeLenZero(op string) bool {
	switch op {
	case "ja", "jcmpa":
		return b.spec.Mode == "ha"
	case "jo", "jcmpo":
		return b.spec.Mode == "vn"
	}
	return false
}

func judgeLine(b *builtArch, ln LineSpec, strict bool) (v lineVerdict) {
	fam, s := familyOf(ln.Op)
	row, ok := operandKinds[fam]
	if !ok || fam == "" {
		v.Excluded = "invalid-case:no-grammar"
		return
	}
	opIdx, ok := b.index[ln.Op]
	if !ok {
		v.Excluded = "invalid-case:opcode-not-in-arch"
		return
	}
	kinds := row.kinds
	text, ok := renderLine(kinds, ln)
	if !ok {
		v.Excluded = "invalid-case:operand"
		return
	}
	if ln.RawText != "" {
		text = ln.RawText
	}
	v.Text = text
	lab := func(l string) { v.Labels = append(v.Labels, l) }
	mw := b.m.Arch.Max_word()

	if row.stub {
		lab("stub:" + ln.Op)
		w, err, pan := asmLine(b, text)
		if pan != nil {
			v.Fail = pbt.Failf("panic:"+ln.Op, "%q: assembler panics: %v", text, pan)
			return
		}
		if err == nil && (len(w) != mw || !only01(w)) {
			v.Fail = pbt.Failf("len:"+ln.Op, "%q: stub opcode emits %q (%d bits), Max_word is %d", text, w, len(w), mw)
		}
		return
	}

	v.ArityOff = len(ln.Operands) != len(kinds)
	// reference: does every operand fit?
	type opnd struct {
		k     kind
		val   *big.Int // numeric
		idx   uint64
		fits  bool
		width int
	}
	var ops []opnd
	classes := map[string]bool{}
	for i, o := range ln.Operands {
		if i >= len(kinds) {
			break
		}
		k := kinds[i]
		x := opnd{k: k}
		if k.numeric() {
			x.val, _ = bigOf(o.Val)
			x.width = b.width(k, s)
			x.fits = x.width > 0 && x.val.BitLen() <= x.width // a field of width 0 does not exist (L==0: no RAM): nothing fits
			tok, _ := renderOperand(k, o)
			tok = strings.ToLower(tok)
			if len(matchersOf(tok)) != 1 {
				v.Excluded = "D2:ambiguous-or-unmatched-literal"
				return
			}
			if !x.fits {
				classes["D1"] = true
				v.FailKind = string(k)
			} else if x.width == 64 && x.val.BitLen() == 64 {
				classes["getid64"] = true
			}
			how := o.How
			if how == "" {
				how = "?"
			}
			nota := o.Notation
			if o.Raw != "" {
				nota = "raw"
			} else if nota == "" {
				nota = "dec"
			}
			if x.fits {
				lab("kind:" + string(k) + ":fits")
			} else {
				lab("kind:" + string(k) + ":overflow:" + how)
			}
			lab("notation:" + nota)
		} else {
			x.idx = o.Idx
			x.fits = o.Idx < b.limit(k)
			if x.fits {
				lab("kind:" + string(k) + ":fits")
			} else {
				how := o.How
				if how == "" {
					how = "?"
				}
				lab("kind:" + string(k) + ":beyond:" + how)
				if v.FailKind == "" {
					v.FailKind = string(k)
				}
			}
		}
		if !x.fits {
			v.OutOfRng = true
		}
		ops = append(ops, x)
	}
	if ln.Op == "tsp" {
		classes["tsp"] = true
	}
	if ln.Op == "m2rri" && 2*b.spec.R > b.spec.R+b.spec.O {
		classes["m2rri-len"] = true
	}
	if b.modeLenZero(ln.Op) {
		classes["modelen"] = true
	}
	if ln.Op == "r2v" && b.vtmBound() {
		classes["r2v-vtm"] = true
	}
	// D1, tsp, m2rri-len and modelen have been repaired in /repo (see known_findings.json): those classes are
	// judged like everything else and only labelled. Still excluded: getid64 (open finding) and r2v-vtm
	// (out of domain: arch.Tag is only set by Write_verilog, never while a producer assembles).
	for c := range classes {
		lab("class:" + c)
	}
	for _, c := range []string{"D1", "tsp", "m2rri-len", "modelen"} {
		delete(classes, c)
	}
	if !strict && len(classes) > 0 {
		var cs []string
		for c := range classes {
			cs = append(cs, c)
		}
		sort.Strings(cs)
		v.Excluded = "known:" + strings.Join(cs, "+")
		return
	}

	w, err, pan := asmLine(b, text)
	if pan != nil {
		v.Fail = pbt.Failf("panic:"+ln.Op, "%q: assembler panics: %v", text, pan)
		return
	}
	if err != nil {
		// an error is always an allowed outcome
		switch {
		case v.ArityOff:
			lab("arity:rejected")
		case v.OutOfRng:
			lab("op:" + ln.Op + ":range-rejected")
			v.NT = true
		default:
			lab("op:" + ln.Op + ":VALID-REJECTED")
		}
		return
	}
	v.Accepted, v.Word = true, w
	if w == "" {
		v.Fail = pbt.Failf("len:"+ln.Op, "%q: accepted with an empty word", text)
		return
	}
	describe := func() string {
		return fmt.Sprintf("arch{Rsize=%d R=%d N=%d M=%d L=%d O=%d mode=%s ops=%v wordsize=%d shared=%q tag=%q}",
			b.spec.Rsize, b.spec.R, b.spec.N, b.spec.M, b.spec.L, b.spec.O, b.spec.Mode, b.spec.Ops, b.m.Arch.WordSize, b.spec.Shared, b.spec.Tag)
	}
	// --- fixed width
	if len(w) != mw {
		overflow := false
		for _, x := range ops {
			if x.k.numeric() && !x.fits {
				overflow = true
			}
		}
		regsFit := true
		for _, x := range ops {
			if !x.k.numeric() && !x.fits {
				regsFit = false
			}
		}
		if overflow && len(w) > mw && regsFit {
			v.Fail = pbt.Failf(sigD1, "%q assembles to %q: %d bits, Max_word is %d (operand does not fit its field and lengthens the word) %s", text, w, len(w), mw, describe())
			return
		}
		sig := "len:" + ln.Op
		switch {
		case ln.Op == "tsp" && !regsFit:
			sig = "accept:tsp-unknown-register"
		case ln.Op == "tsp":
			sig = "len:tsp-no-padding"
		case classes["m2rri-len"]:
			sig = "len:m2rri-length-function"
		case classes["modelen"]:
			sig = "len:mode-without-length"
		case classes["r2v-vtm"]:
			sig = "len:r2v-vtextmem-depth"
		}
		v.Fail = pbt.Failf(sig, "%q assembles to %q: %d bits, Max_word is %d %s", text, w, len(w), mw, describe())
		return
	}
	if !only01(w) {
		v.Fail = pbt.Failf("alphabet:"+ln.Op, "%q assembles to %q: not over {0,1}", text, w)
		return
	}
	if v.ArityOff {
		lab("arity:ACCEPTED:" + ln.Op) // not a syntactically valid line: outside the statement, recorded only
		return
	}
	// --- range-checked
	if v.OutOfRng {
		which := ""
		for i, x := range ops {
			if !x.fits {
				which += fmt.Sprintf(" operand %d (%s)", i, x.k)
			}
		}
		sig := "wrap:" + ln.Op
		if classes["r2v-vtm"] {
			sig = "wrap:r2v-vtextmem-depth"
		}
		if ln.Op == "tsp" {
			sig = "accept:tsp-unknown-register"
			for _, x := range ops {
				if x.k.numeric() && !x.fits {
					sig = "wrap:tsp-overflow-hidden-by-missing-padding"
				}
			}
		}
		v.Fail = pbt.Failf(sig, "%q accepted as %q although%s does not fit %s", text, w, which, describe())
		return
	}
	// --- opcode field
	if id, derr := b.m.Conproc.Decode_opcode(w); derr != nil || id != opIdx {
		v.Fail = pbt.Failf("opfield:"+ln.Op, "%q assembles to %q whose opcode field decodes to %d (%v), expected %d %s", text, w, id, derr, opIdx, describe())
		return
	}
	// --- lossless: disassembly == normalise(line)
	dis, derr, dpan := disasmWord(b, w)
	if dpan != nil {
		v.Fail = pbt.Failf("panic-disasm:"+ln.Op, "%q -> %q: disassembler panics: %v %s", text, w, dpan, describe())
		return
	}
	if derr != nil {
		v.Fail = pbt.Failf("roundtrip:"+ln.Op, "%q -> %q: disassembler error %v", text, w, derr)
		return
	}
	fields := strings.Fields(strings.ToLower(dis))
	bad := func(format string, a ...any) {
		sig := "roundtrip:" + ln.Op
		if classes["getid64"] {
			sig = "roundtrip:get_id-overflows-int-at-64-bits"
		} else if classes["r2v-vtm"] {
			sig = "roundtrip:r2v-vtextmem-depth"
		}
		v.Fail = pbt.Failf(sig, "%q -> %q -> %q: %s %s", text, w, strings.TrimSpace(dis), fmt.Sprintf(format, a...), describe())
	}
	if len(fields) == 0 || fields[0] != ln.Op {
		bad("disassembly names another opcode")
		return
	}
	if len(fields)-1 != len(ops) {
		bad("disassembly has %d operands, the line has %d", len(fields)-1, len(ops))
		return
	}
	for i, x := range ops {
		f := fields[i+1]
		if x.k.numeric() {
			got, ok := new(big.Int).SetString(f, 0) // value comparison: any base the disassembler likes
			if !ok {
				bad("operand %d %q is not a number", i, f)
				return
			}
			if got.Cmp(x.val) != 0 {
				if v.FailKind == "" {
					v.FailKind = string(x.k)
				}
				bad("operand %d is %s, the line says %s", i, got, x.val)
				return
			}
		} else {
			p := prefixOf(x.k)
			n, perr := strconv.ParseUint(strings.TrimPrefix(f, p), 10, 64)
			if !strings.HasPrefix(f, p) || perr != nil || n != x.idx {
				if v.FailKind == "" {
					v.FailKind = string(x.k)
				}
				bad("operand %d is %q, the line says %s%d", i, f, p, x.idx)
				return
			}
		}
	}
	// --- second direction: asm(disasm(w)) == w
	w2, err2, pan2 := asmLine(b, strings.TrimRight(dis, "\n"))
	if pan2 != nil || err2 != nil || w2 != w {
		sig := "reasm:" + ln.Op
		if classes["getid64"] {
			sig = "roundtrip:get_id-overflows-int-at-64-bits"
		}
		v.Fail = pbt.Failf(sig, "%q -> %q -> %q -> %q (err=%v panic=%v): assembling the disassembly does not give the word back %s", text, w, strings.TrimSpace(dis), w2, err2, pan2, describe())
		return
	}
	lab("op:" + ln.Op + ":ok")
	v.NT = true
	return
}
