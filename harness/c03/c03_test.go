// C03 — generated-input search over (architecture, instruction line).
package c03

import (
	"encoding/json"
	"fmt"
	"math/big"
	"os"
	"sort"
	"strings"
	"testing"

	"github.com/BondMachineHQ/BondMachine/pkg/procbuilder"
	"pgregory.net/rapid"
	"verifharness/pbt"
)

// ---------------------------------------------------------------------------
// generators

var soConstraint = map[string]string{ // pkg/bondmachine/shr_*.go: <Type>_instance.String()
	"channel": "channel:", "kbd": "kbd:8", "lfsr8": "lfsr8:1", "queue": "queue:8",
	"stack": "stack:8", "uart": "uart:9600:8", "barrier": "barrier:100",
}
var soNames = []string{"barrier", "channel", "kbd", "lfsr8", "queue", "stack", "uart"}

func neededSO(op string) string {
	fam, _ := familyOf(op)
	for _, k := range operandKinds[fam].kinds {
		if so, ok := soOf[k]; ok {
			return so[0]
		}
	}
	return ""
}

type genOpts struct {
	focus    string  // "" = any opcode; else the opcode of the first line
	class    string  // "" | D1 | tsp | getid64 | m2rri-len | modelen | r2v-vtm : force the case into that class
	pOverflo float64 // probability that an out-of-range plan picks a numeric overflow in the main entry
}

func pick[T any](t *rapid.T, label string, xs []T) T { return rapid.SampledFrom(xs).Draw(t, label) }

func genArch(t *rapid.T, focus string, class string) ArchSpec {
	var a ArchSpec
	a.Rsize = pick(t, "rsize", []int{8, 8, 16, 32, 64})
	a.R = pick(t, "R", []int{1, 1, 1, 2, 2, 3, 4})
	a.N = pick(t, "N", []int{0, 1, 1, 2, 2, 3, 4})
	a.M = pick(t, "M", []int{0, 1, 1, 2, 2, 3, 4})
	a.L = rapid.IntRange(0, 4).Draw(t, "L")
	a.O = rapid.IntRange(1, 6).Draw(t, "O")
	a.Mode = pick(t, "mode", []string{"ha", "ha", "ha", "ha", "hy", "vn"})
	a.WordExtra = pick(t, "wordextra", []int{-1, -1, -1, 0, 0, 1, 2, 8})
	switch class {
	case "getid64":
		a.Rsize = 64
	case "m2rri-len":
		a.R = pick(t, "Rbig", []int{2, 3, 4})
		a.O = rapid.IntRange(1, a.R-1).Draw(t, "Osmall")
	case "modelen":
		if focus == "ja" || focus == "jcmpa" {
			a.Mode = "ha"
		} else {
			a.Mode = "vn"
		}
	}
	// opcode subset: the focus opcode plus a random set; small sets are frequent because only the
	// widest opcode of a set decides Max_word (a width defect of opcode X is visible only when X is widest)
	size := pick(t, "subset", []string{"one", "few", "few", "some", "many", "all"})
	set := map[string]bool{focus: true}
	var extra int
	switch size {
	case "few":
		extra = rapid.IntRange(1, 3).Draw(t, "nextra")
	case "some":
		extra = rapid.IntRange(4, 12).Draw(t, "nextra")
	case "many":
		extra = rapid.IntRange(13, 60).Draw(t, "nextra")
	case "all":
		extra = len(allNames)
	}
	if extra >= len(allNames) {
		for _, n := range allNames {
			set[n] = true
		}
	} else {
		for i := 0; i < extra; i++ {
			set[pick(t, "op", allNames)] = true
		}
	}
	for n := range set {
		a.Ops = append(a.Ops, n)
	}
	sort.Strings(a.Ops)
	// shared objects: counts 0..4 per type, interleaved in a generated order
	var cons []string
	need := map[string]bool{}
	for _, n := range a.Ops {
		if so := neededSO(n); so != "" {
			need[so] = true
		}
	}
	for _, so := range soNames {
		cnt := 0
		if need[so] {
			cnt = pick(t, "so_"+so, []int{0, 1, 1, 2, 2, 3, 4})
		} else if rapid.IntRange(0, 9).Draw(t, "so_extra") == 0 {
			cnt = rapid.IntRange(1, 2).Draw(t, "so_n")
		}
		for i := 0; i < cnt; i++ {
			cons = append(cons, soConstraint[so])
		}
	}
	if len(cons) > 1 {
		cons = rapid.Permutation(cons).Draw(t, "so_order")
	}
	vt := class == "r2v-vtm" || (class == "" && set["r2v"] && rapid.IntRange(0, 5).Draw(t, "vtm") == 0)
	if vt {
		w := pick(t, "vtw", []int{2, 4, 16, 20, 40})
		h := pick(t, "vth", []int{1, 4, 16, 25})
		cons = append(cons, fmt.Sprintf("vtextmem:0:0:0:%d:%d", w, h))
		if class == "r2v-vtm" {
			a.Tag = "0"
		} else {
			a.Tag = pick(t, "tag", []string{"", "", "0", "1"})
		}
		if a.Tag == "0" && class != "r2v-vtm" {
			// bound box: that is the r2v-vtm class; the main entry keeps a small share of it (counted as Excluded)
			if rapid.IntRange(0, 3).Draw(t, "vtm_keep") != 0 {
				a.Tag = ""
			}
		}
	}
	a.Shared = strings.Join(cons, ",")
	return a
}

var notations = []string{"dec", "dec", "0u", "0d", "0x", "0x", "0b", "0b", "0u<>", "0d<>", "0x<>", "0b<>", "0s", "0sd"}

var two = big.NewInt(2)

func pow2(n int) *big.Int { return new(big.Int).Exp(two, big.NewInt(int64(n)), nil) }

func genBelow(t *rapid.T, label string, lim *big.Int) *big.Int {
	// uniform-ish value in [0, lim): generated from bytes so that it shrinks towards 0
	n := (lim.BitLen() + 7) / 8
	if n == 0 {
		return big.NewInt(0)
	}
	bs := rapid.SliceOfN(rapid.Byte(), n, n).Draw(t, label)
	v := new(big.Int).SetBytes(bs)
	return v.Mod(v, lim)
}

func fixNotation(v *big.Int, nota string, lead0 bool) string {
	max64 := pow2(64)
	switch nota {
	case "0s", "0sd":
		if v.Cmp(pow2(63)) >= 0 {
			return "0x"
		}
	case "0u<>", "0d<>":
		if v.Cmp(max64) >= 0 {
			return "0b"
		}
	case "0u", "0d":
		// D2: "0u100" is read by two matchers ("^0u([0-9]+)$" and "^0u([0-9]+).0+$"); stay out of that set
		ds := v.String()
		if lead0 {
			ds = "0" + ds
		}
		if len(ds) >= 3 && strings.HasSuffix(ds, "0") {
			return "dec"
		}
	}
	return nota
}

func genNumeric(t *rapid.T, k kind, width int, fits bool) Operand {
	o := Operand{Kind: string(k)}
	var v *big.Int
	if fits && width > 0 {
		lim := pow2(width)
		switch pick(t, "numhow", []string{"zero", "one", "max", "msb", "rnd", "rnd", "rnd"}) {
		case "zero":
			v = big.NewInt(0)
		case "one":
			v = big.NewInt(1)
		case "max":
			v = new(big.Int).Sub(lim, big.NewInt(1))
		case "msb":
			v = pow2(width - 1)
		default:
			v = genBelow(t, "val", lim)
		}
		o.How = "in"
	} else {
		lim := pow2(width)
		hows := []string{"limit", "limit", "limit+1", "limit+rnd", "2^64-1", "2^64", "2^70"}
		if width == 8 {
			hows = append(hows, "300on8", "300on8")
		}
		if width == 0 {
			hows = append(hows, "zero-in-absent-field", "zero-in-absent-field")
		}
		how := pick(t, "ovhow", hows)
		switch how {
		case "limit":
			v = lim
		case "limit+1":
			v = new(big.Int).Add(lim, big.NewInt(1))
		case "limit+rnd":
			v = new(big.Int).Add(lim, genBelow(t, "val", pow2(width+3)))
		case "2^64-1":
			v = new(big.Int).Sub(pow2(64), big.NewInt(1))
			if width >= 64 {
				v = pow2(width)
				how = "limit"
			}
		case "2^64":
			v = pow2(64)
		case "2^70":
			v = pow2(70)
		case "300on8":
			v = big.NewInt(300)
		case "zero-in-absent-field":
			v = big.NewInt(0)
		}
		o.How = how
	}
	o.Val = v.String()
	o.Lead0 = rapid.IntRange(0, 5).Draw(t, "lead0") == 0
	o.Notation = fixNotation(v, pick(t, "notation", notations), o.Lead0)
	return o
}

func genIndex(t *rapid.T, k kind, limit uint64, fits bool) Operand {
	o := Operand{Kind: string(k)}
	if fits && limit > 0 {
		switch pick(t, "idxhow", []string{"zero", "last", "rnd", "rnd"}) {
		case "zero":
			o.Idx = 0
		case "last":
			o.Idx = limit - 1
		default:
			o.Idx = uint64(rapid.IntRange(0, int(limit-1)).Draw(t, "idx"))
		}
		o.How = "in"
		return o
	}
	how := pick(t, "idxout", []string{"limit", "limit", "limit+1", "pow2above", "huge", "2^32+k", "2^64-1"})
	switch how {
	case "limit":
		o.Idx = limit
	case "limit+1":
		o.Idx = limit + 1
	case "pow2above": // first index whose binary form needs one more bit than the field: a truncating encoder would alias it to 0
		b := uint64(2)
		for b <= limit {
			b <<= 1
		}
		o.Idx = b
	case "huge":
		o.Idx = limit + uint64(rapid.IntRange(2, 1<<20).Draw(t, "idx"))
	case "2^32+k":
		o.Idx = 1<<32 + uint64(rapid.IntRange(0, 3).Draw(t, "idx"))
	case "2^64-1":
		o.Idx = 1<<64 - 1
	}
	o.How = how
	return o
}

// genLine draws one line for opcode op on architecture a.
//
//	plan "in"  : every operand fits
//	plan "out" : exactly one operand does not fit (index beyond its limit; numeric overflow only when allowOverflow)
func genLine(t *rapid.T, b *builtArch, op string, clean bool, allowOverflow bool, forceOverflow bool, forceMSB64 bool) LineSpec {
	fam, s := familyOf(op)
	kinds := operandKinds[fam].kinds
	ln := LineSpec{Op: op}
	ln.Upper = rapid.IntRange(0, 7).Draw(t, "upper") == 0
	ln.Sep = pick(t, "sep", []int{0, 0, 0, 1, 2, 3})
	bad := -1
	var cand []int
	for i, k := range kinds {
		if forceOverflow {
			if k.numeric() {
				cand = append(cand, i)
			}
		} else if !k.numeric() || allowOverflow {
			cand = append(cand, i)
		}
	}
	if len(cand) > 0 && (forceOverflow || (!clean && rapid.IntRange(0, 99).Draw(t, "plan") < 55)) {
		bad = pick(t, "badoperand", cand)
	}
	for i, k := range kinds {
		fits := i != bad
		if k.numeric() {
			w := b.width(k, s)
			if w == 0 && fits {
				// no value fits an absent field: the operand is out of range whatever is written (D1 class)
				fits = false
			}
			o := genNumeric(t, k, w, fits)
			if forceMSB64 && w == 64 && fits {
				v := new(big.Int).Add(pow2(63), genBelow(t, "low", pow2(63)))
				o.Val, o.How = v.String(), "msb64"
				o.Notation = fixNotation(v, o.Notation, o.Lead0)
			}
			ln.Operands = append(ln.Operands, o)
		} else {
			ln.Operands = append(ln.Operands, genIndex(t, k, b.limit(k), fits))
		}
	}
	// arity class (not syntactically valid; recorded, never judged beyond the width law)
	if !clean && !forceOverflow && !forceMSB64 && rapid.IntRange(0, 29).Draw(t, "arity") == 0 {
		if len(ln.Operands) > 0 && rapid.Bool().Draw(t, "drop") {
			ln.Operands = ln.Operands[:len(ln.Operands)-1]
		} else {
			ln.Operands = append(ln.Operands, Operand{Kind: string(kReg), Idx: 0, How: "surplus"})
		}
	}
	return ln
}

func capacity(a ArchSpec) int {
	c := 1 << uint(a.O)
	switch a.Mode {
	case "vn":
		c = 1 << uint(a.L)
	case "hy":
		if a.L > a.O {
			c = 1 << uint(a.L)
		}
	}
	return c
}

func genCase(o genOpts) func(*rapid.T) Case {
	return func(t *rapid.T) Case {
		var c Case
		focus := o.focus
		if focus == "" {
			// rapid's range draws favour the ends of the range; a modulo over a wide draw is flatter
			focus = allNames[int(rapid.Uint64().Draw(t, "focus")%uint64(len(allNames)))]
		}
		c.Arch = genArch(t, focus, o.class)
		c.Strict = o.class != ""
		b, why := buildArch(c.Arch)
		if b == nil {
			t.Fatalf("generator built an invalid architecture: %s %+v", why, c.Arch)
		}
		n := rapid.IntRange(1, 4).Draw(t, "nlines")
		if cp := capacity(c.Arch); n > cp {
			n = cp
		}
		if o.class != "" {
			n = 1
		}
		// half of the cases are "clean": every operand of every line in range, so that whole programs assemble
		clean := o.class == "" && rapid.Bool().Draw(t, "clean")
		for i := 0; i < n; i++ {
			op := focus
			if i > 0 {
				op = pick(t, "lineop", c.Arch.Ops)
			}
			allowOv := o.class == "" && !clean && rapid.IntRange(0, 19).Draw(t, "ov") == 0 // small share: visible in the Excluded counter
			c.Lines = append(c.Lines, genLine(t, b, op, clean, allowOv || o.class == "tsp", o.class == "D1", o.class == "getid64"))
		}
		c.NoFinalNewline = o.class == "" && rapid.IntRange(0, 3).Draw(t, "nofinalnewline") == 0
		if o.class == "" && rapid.IntRange(0, 2).Draw(t, "noisy") == 0 {
			// comment and blank lines between the instructions of the program (Assembler_process_line
			// answers "" for them: they occupy no ROM location)
			for i := 0; i <= len(c.Lines); i++ {
				c.Noise = append(c.Noise, rapid.SampledFrom([]string{"", "", "# a comment", "#", "#nop", "  # r0 r1", "", " ", "\t"}).Draw(t, "noise"))
			}
		}
		return c
	}
}

// opcodes with at least one numeric operand (the D1 surface)
func numericOpcodes() []string {
	var r []string
	for _, n := range allNames {
		fam, _ := familyOf(n)
		row := operandKinds[fam]
		if row.stub || n == "tsp" { // tsp has its own entry: its missing padding loop masks or mimics overflows
			continue
		}
		for _, k := range row.kinds {
			if k.numeric() {
				r = append(r, n)
				break
			}
		}
	}
	return r
}

func genClass(class string, focusSet []string) func(*rapid.T) Case {
	return func(t *rapid.T) Case {
		if focusSet == nil { // resolved lazily: the registry is filled by init()
			focusSet = numericOpcodes()
		}
		f := focusSet[int(rapid.Uint64().Draw(t, "focus")%uint64(len(focusSet)))]
		return genCase(genOpts{focus: f, class: class})(t)
	}
}

// ---------------------------------------------------------------------------
// property

func prop(c Case) pbt.Outcome {
	b, why := buildArch(c.Arch)
	if b == nil {
		return pbt.Outcome{Excluded: "invalid-case:" + why}
	}
	if len(c.Lines) == 0 || len(c.Lines) > capacity(c.Arch) {
		return pbt.Outcome{Excluded: "invalid-case:program-size"}
	}
	labels := map[string]bool{}
	lab := func(l string) { labels[l] = true }
	a := c.Arch
	if a.R == 1 {
		lab("arch:R==1")
	}
	if b.m.Inputs_bits() == 1 {
		lab(fmt.Sprintf("arch:inbits==1(N=%d)", a.N))
	}
	if b.m.Outputs_bits() == 1 {
		lab(fmt.Sprintf("arch:outbits==1(M=%d)", a.M))
	}
	lab(fmt.Sprintf("arch:Rsize=%d", a.Rsize))
	lab("arch:mode=" + a.Mode)
	switch {
	case a.WordExtra < 0:
		lab("arch:wordsize=auto")
	case a.WordExtra == 0:
		lab("arch:wordsize=exact")
	default:
		lab("arch:wordsize=larger")
	}
	lab(fmt.Sprintf("arch:opbits=%d", b.m.Opcodes_bits()))
	if a.L == 0 {
		lab("arch:L==0")
	}
	out := pbt.Outcome{}
	finish := func() pbt.Outcome {
		for l := range labels {
			out.Labels = append(out.Labels, l)
		}
		sort.Strings(out.Labels)
		return out
	}
	var verdicts []lineVerdict
	excluded := ""
	for _, ln := range c.Lines {
		if so := neededSO(ln.Op); so != "" {
			if sharedCount(a.Shared, so) > 0 {
				lab("needs-so:present")
			} else {
				lab("needs-so:absent")
			}
		}
		v := judgeLine(b, ln, c.Strict)
		for _, l := range v.Labels {
			lab(l)
		}
		if v.Fail != nil {
			out.Fail = v.Fail
			return finish()
		}
		if v.Excluded != "" && excluded == "" {
			excluded = v.Excluded
		}
		if v.NT {
			out.NonTrivial = true
		}
		verdicts = append(verdicts, v)
	}
	if excluded != "" {
		out.Excluded = excluded
		return finish()
	}
	// ---- whole-program entry point: Arch.Assembler must agree with the per-line results
	var src strings.Builder
	allOK := true
	stubs := false
	for i, v := range verdicts {
		if len(v.Text) > 240 { // Arch.Assembler copies a line into a 256-byte buffer
			return finish()
		}
		if i < len(c.Noise) && c.Noise[i] != "" {
			src.WriteString(c.Noise[i])
			src.WriteString("\n")
			lab("program:noise-lines")
		}
		src.WriteString(v.Text)
		src.WriteString("\n")
		if i == len(verdicts)-1 && len(c.Noise) > len(verdicts) && c.Noise[len(verdicts)] != "" {
			src.WriteString(c.Noise[len(verdicts)])
			src.WriteString("\n")
		}
		if !v.Accepted {
			fam, _ := familyOf(c.Lines[i].Op)
			if operandKinds[fam].stub {
				stubs = true
			} else {
				allOK = false
			}
		}
	}
	if stubs {
		return finish()
	}
	text := src.String()
	if c.NoFinalNewline {
		text = strings.TrimSuffix(text, "\n")
		lab("program:no-final-newline")
	}
	prog, err := func() (p procbuilder.Program, err error) {
		defer func() {
			if r := recover(); r != nil {
				err = fmt.Errorf("PANIC: %v", r)
			}
		}()
		return b.m.Arch.Assembler([]byte(text))
	}()
	if err != nil && strings.HasPrefix(err.Error(), "PANIC") {
		out.Fail = pbt.Failf("panic:program", "Arch.Assembler panics on %q: %v", src.String(), err)
		return finish()
	}
	if allOK {
		if err != nil {
			out.Fail = pbt.Failf("program:line-ok-program-rejected", "every line of %q assembles alone, Arch.Assembler says %v", src.String(), err)
			return finish()
		}
		if len(prog.Slocs) != len(verdicts) {
			out.Fail = pbt.Failf("program:line-count", "%q: %d words for %d lines", text, len(prog.Slocs), len(verdicts))
			return finish()
		}
		for i, v := range verdicts {
			if prog.Slocs[i] != v.Word {
				out.Fail = pbt.Failf("program:word-differs", "%q line %d: Arch.Assembler gives %q, Assembler_process_line gives %q", src.String(), i, prog.Slocs[i], v.Word)
				return finish()
			}
		}
		lab(fmt.Sprintf("program:lines=%d", len(verdicts)))
	} else if err == nil {
		out.Fail = pbt.Failf("program:bad-line-accepted", "%q: a line is rejected alone but Arch.Assembler accepts the program", src.String())
		return finish()
	} else {
		lab("program:rejected")
	}
	return finish()
}

const ruleMain = "architecture: Rsize in {8,16,32,64}, R 1..4 (R=1 weight 3/7), N,M 0..4, L 0..4, O 1..6, mode ha/hy/vn, WordSize 0 / exactly Max_word / larger, " +
	"opcode set = one focus opcode drawn uniformly from the 93 static + 19 dynamic-family opcodes plus 0..all others, name-sorted, Shared_constraints with 0..4 objects per type; " +
	"program of 1..4 lines, every operand drawn from the opcode's operand grammar (operand_kinds.go) either inside its range or one operand outside (index = limit, limit+1, next power of two, huge; " +
	"numeric 2^w, 2^w+1, 2^64-1, 2^64, 2^70, 300 on 8 bits) in 11 integer notations; non-trivial = a line assembled and passed the whole oracle, or was rejected while the reference says an operand does not fit; " +
	"distinct = distinct case JSON. Known-finding classes are decided from the input and counted as Excluded."

var Props = []*pbt.Entry{
	pbt.Def("lines", ruleMain, genCase(genOpts{}), prop),
	// one strict entry per recorded mechanism: red while the defect is in the tree
	pbt.Def("overflow", "as 'lines' but one line whose opcode has a numeric operand and exactly one numeric operand needs more bits than its field (D1 class), judged; non-trivial = rejected", genClass("D1", nil), prop),
	pbt.Def("tsp", "tsp lines (in range, index out of range, numeric overflow), judged", genClass("tsp", []string{"tsp"}), prop),
	pbt.Def("imm64", "Rsize=64, rset with an in-range immediate whose bit 63 is set, judged", genClass("getid64", []string{"rset"}), prop),
	pbt.Def("m2rri", "m2rri on architectures with R > O, judged", genClass("m2rri-len", []string{"m2rri"}), prop),
	pbt.Def("modelen", "ja/jcmpa in mode ha, jo/jcmpo in mode vn (Op_get_instruction_len returns 0 there), judged", genClass("modelen", []string{"ja", "jcmpa", "jo", "jcmpo"}), prop),
	pbt.Def("r2v-vtm", "r2v with a vtextmem box bound to arch.Tag, judged", genClass("r2v-vtm", []string{"r2v"}), prop),
	pbt.Def("rawlines", ruleRaw, genRaw, propRaw),
}

func TestProps(t *testing.T)  { pbt.RunAll(t, "C03", Props) }
func TestReplay(t *testing.T) { pbt.ReplayAll(t, "C03", Props) }

// ---------------------------------------------------------------------------
// survey: judge every generated line strictly, never stop, tabulate failures by
// (signature, opcode, operand kind). VERIF_C03_SURVEY=<out.json> go test -run TestSurvey -rapid.checks=N

type surveyRow struct {
	Sig, Op, Kind string
	Count         int
	Line          string
	Msg           string
	Case          Case
}

func TestSurvey(t *testing.T) {
	path := os.Getenv("VERIF_C03_SURVEY")
	if path == "" {
		t.Skip("VERIF_C03_SURVEY not set")
	}
	rows := map[string]*surveyRow{}
	okOps := map[string]int{}
	lines := 0
	see := func(c Case) {
		b, _ := buildArch(c.Arch)
		if b == nil {
			return
		}
		for _, ln := range c.Lines {
			lines++
			v := judgeLine(b, ln, true)
			if v.Accepted && v.Fail == nil {
				okOps[ln.Op]++
			}
			if v.Fail == nil {
				continue
			}
			key := v.Fail.Sig + "|" + ln.Op + "|" + v.FailKind
			r := rows[key]
			one := Case{Arch: c.Arch, Lines: []LineSpec{ln}, Strict: true}
			if r == nil {
				r = &surveyRow{Sig: v.Fail.Sig, Op: ln.Op, Kind: v.FailKind, Line: v.Text, Msg: v.Fail.Msg, Case: one}
				rows[key] = r
			} else if len(c.Arch.Ops) < len(r.Case.Arch.Ops) || (len(c.Arch.Ops) == len(r.Case.Arch.Ops) && len(v.Text) < len(r.Line)) {
				r.Line, r.Msg, r.Case = v.Text, v.Fail.Msg, one
			}
			r.Count++
		}
	}
	gens := []func(*rapid.T) Case{genCase(genOpts{})}
	for _, cl := range []struct {
		c string
		f []string
	}{{"D1", nil}, {"tsp", []string{"tsp"}}, {"getid64", nil}, {"m2rri-len", []string{"m2rri"}}, {"modelen", []string{"ja", "jcmpa", "jo", "jcmpo"}}, {"r2v-vtm", []string{"r2v"}}} {
		gens = append(gens, genClass(cl.c, cl.f))
	}
	for _, g := range gens {
		g := g
		rapid.Check(t, func(rt *rapid.T) {
			c := g(rt)
			c.Strict = true
			see(c)
		})
	}
	var out []*surveyRow
	for _, r := range rows {
		out = append(out, r)
	}
	sort.Slice(out, func(i, j int) bool {
		if out[i].Sig != out[j].Sig {
			return out[i].Sig < out[j].Sig
		}
		if out[i].Op != out[j].Op {
			return out[i].Op < out[j].Op
		}
		return out[i].Kind < out[j].Kind
	})
	var missing []string
	for _, n := range allNames {
		fam, _ := familyOf(n)
		if okOps[n] == 0 && !operandKinds[fam].stub {
			missing = append(missing, n)
		}
	}
	bs, _ := json.MarshalIndent(map[string]any{"lines": lines, "rows": out, "opcodes_without_success": missing, "uncreatable": uncreatable}, "", " ")
	_ = os.WriteFile(path, bs, 0o644)
	for _, r := range out {
		fmt.Printf("SURVEY %-45s %-12s %-6s n=%-6d %q\n", r.Sig, r.Op, r.Kind, r.Count, r.Line)
	}
	fmt.Printf("SURVEY lines=%d opcodes_without_success=%v uncreatable=%v\n", lines, missing, uncreatable)
}

// ---------------------------------------------------------------------------
// known/ replay files: VERIF_C03_WRITE_KNOWN=<dir> go test -run TestWriteKnown

func TestWriteKnown(t *testing.T) {
	dir := os.Getenv("VERIF_C03_WRITE_KNOWN")
	if dir == "" {
		t.Skip("VERIF_C03_WRITE_KNOWN not set")
	}
	num := func(k kind, v string) Operand { return Operand{Kind: string(k), Val: v, Notation: "dec"} }
	reg := func(i uint64) Operand { return Operand{Kind: string(kReg), Idx: i} }
	base := ArchSpec{Rsize: 8, R: 1, N: 0, M: 0, L: 0, O: 1, Mode: "ha", WordExtra: -1}
	with := func(f func(a *ArchSpec)) ArchSpec { a := base; f(&a); return a }
	type kc struct {
		file, entry, sig string
		c                Case
	}
	cases := []kc{
		{"D1-imm-rset-300-on-8-bit", "overflow", sigD1, Case{Arch: with(func(a *ArchSpec) { a.Ops = []string{"nop", "rset"} }), Lines: []LineSpec{{Op: "rset", Operands: []Operand{reg(0), num(kImm, "300")}}}}},
		{"D1-imms-rsets5-32", "overflow", sigD1, Case{Arch: with(func(a *ArchSpec) { a.Ops = []string{"rsets5"} }), Lines: []LineSpec{{Op: "rsets5", Operands: []Operand{reg(0), num(kImmS, "32")}}}}},
		{"D1-rom-jz-target-beyond-rom", "overflow", sigD1, Case{Arch: with(func(a *ArchSpec) { a.O = 3; a.Ops = []string{"jz"} }), Lines: []LineSpec{{Op: "jz", Operands: []Operand{reg(0), num(kRom, "8")}}}}},
		{"D1-loc-j-target-beyond-rom", "overflow", sigD1, Case{Arch: with(func(a *ArchSpec) { a.O = 3; a.Ops = []string{"j"} }), Lines: []LineSpec{{Op: "j", Operands: []Operand{num(kLoc, "8")}}}}},
		{"D1-loco-jo-target-beyond-rom", "overflow", sigD1, Case{Arch: with(func(a *ArchSpec) { a.O = 3; a.Ops = []string{"jo"} }), Lines: []LineSpec{{Op: "jo", Operands: []Operand{num(kLocO, "8")}}}}},
		{"D1-ram-m2r-address-beyond-ram", "overflow", sigD1, Case{Arch: with(func(a *ArchSpec) { a.L = 2; a.Ops = []string{"m2r"} }), Lines: []LineSpec{{Op: "m2r", Operands: []Operand{reg(0), num(kRam, "4")}}}}},
		{"D1-ram-m2r-address-0-without-ram", "overflow", sigD1, Case{Arch: with(func(a *ArchSpec) { a.Ops = []string{"m2r"} }), Lines: []LineSpec{{Op: "m2r", Operands: []Operand{reg(0), num(kRam, "0")}}}}},
		{"D1-vaddr-r2v-300", "overflow", sigD1, Case{Arch: with(func(a *ArchSpec) { a.Ops = []string{"r2v"} }), Lines: []LineSpec{{Op: "r2v", Operands: []Operand{reg(0), num(kVaddr, "300")}}}}},
		{"D1-nice-tsp-300", "tsp", sigD1, Case{Arch: with(func(a *ArchSpec) { a.Ops = []string{"tsp"} }), Lines: []LineSpec{{Op: "tsp", Operands: []Operand{reg(0), num(kLoc, "1"), num(kNice, "300")}}}}},
		{"tsp-short-word-next-to-wider-opcode", "tsp", "len:tsp-no-padding", Case{Arch: with(func(a *ArchSpec) { a.Rsize = 16; a.Ops = []string{"rset", "tsp"} }), Lines: []LineSpec{{Op: "tsp", Operands: []Operand{reg(0), num(kLoc, "1"), num(kNice, "1")}}}}},
		{"tsp-unknown-register-accepted", "tsp", "accept:tsp-unknown-register", Case{Arch: with(func(a *ArchSpec) { a.Ops = []string{"tsp"} }), Lines: []LineSpec{{Op: "tsp", Operands: []Operand{reg(2), num(kLoc, "1"), num(kNice, "1")}}}}},
		{"tsp-overflow-hidden", "tsp", "wrap:tsp-overflow-hidden-by-missing-padding", Case{Arch: with(func(a *ArchSpec) { a.Rsize = 16; a.O = 7; a.R = 2; a.Ops = []string{"rset", "tsp"} }), Lines: []LineSpec{{Op: "tsp", Operands: []Operand{reg(0), num(kLoc, "1"), num(kNice, "256")}}}}},
		{"imm64-bit63-disassembles-negative", "imm64", "roundtrip:get_id-overflows-int-at-64-bits", Case{Arch: with(func(a *ArchSpec) { a.Rsize = 64; a.Ops = []string{"rset"} }), Lines: []LineSpec{{Op: "rset", Operands: []Operand{reg(0), num(kImm, "9223372036854775808")}}}}},
		{"m2rri-longer-than-its-length-function", "m2rri", "len:m2rri-length-function", Case{Arch: with(func(a *ArchSpec) { a.R = 2; a.Ops = []string{"m2rri"} }), Lines: []LineSpec{{Op: "m2rri", Operands: []Operand{reg(0), reg(0)}}}}},
		{"modelen-ja-in-ha", "modelen", "len:mode-without-length", Case{Arch: with(func(a *ArchSpec) { a.Ops = []string{"ja"} }), Lines: []LineSpec{{Op: "ja", Operands: []Operand{num(kLoc, "0")}}}}},
		{"modelen-jo-in-vn", "modelen", "len:mode-without-length", Case{Arch: with(func(a *ArchSpec) { a.Mode = "vn"; a.L = 1; a.Ops = []string{"jo"} }), Lines: []LineSpec{{Op: "jo", Operands: []Operand{num(kLocO, "0")}}}}},
		{"r2v-vtextmem-small-box-roundtrip", "r2v-vtm", "roundtrip:r2v-vtextmem-depth", Case{Arch: with(func(a *ArchSpec) { a.Ops = []string{"r2v"}; a.Shared = "vtextmem:0:0:0:2:1"; a.Tag = "0" }), Lines: []LineSpec{{Op: "r2v", Operands: []Operand{reg(0), num(kVaddr, "1")}}}}},
		{"r2v-vtextmem-large-box-length", "r2v-vtm", "len:r2v-vtextmem-depth", Case{Arch: with(func(a *ArchSpec) { a.Ops = []string{"r2v"}; a.Shared = "vtextmem:0:0:0:40:25"; a.Tag = "0" }), Lines: []LineSpec{{Op: "r2v", Operands: []Operand{reg(0), num(kVaddr, "1")}}}}},
	}
	_ = os.MkdirAll(dir, 0o755)
	for _, k := range cases {
		k.c.Strict = true
		out := pbt.Guard(func() pbt.Outcome { return prop(k.c) })
		if out.Fail == nil {
			t.Errorf("%s: does not fail (excluded=%q labels=%v)", k.file, out.Excluded, out.Labels)
			continue
		}
		if out.Fail.Sig != k.sig {
			t.Errorf("%s: signature %q, expected %q: %s", k.file, out.Fail.Sig, k.sig, out.Fail.Msg)
		}
		raw, _ := json.Marshal(k.c)
		rf := pbt.ReplayFile{Property: "C03", Entry: k.entry, Failure: out.Fail, Case: raw}
		bs, _ := json.MarshalIndent(rf, "", " ")
		if err := os.WriteFile(dir+"/"+k.file+".json", append(bs, '\n'), 0o644); err != nil {
			t.Fatal(err)
		}
		fmt.Printf("KNOWN %-45s %-45s %s\n", k.file, out.Fail.Sig, strings.SplitN(out.Fail.Msg, " arch{", 2)[0])
	}
}
