// Operand grammar of every opcode, as data.
//
// Every row was read from the opcode's Assembler body (the only code that decides
// what a line means) and cross-checked against Op_show_assembler and
// Op_get_instruction_len. The comment on each row says where (file:line of the
// Assembler func in /repo/pkg/procbuilder at the snapshot commit) and which
// "Process_*"/lookup each operand goes through. Where the documentation string
// disagrees with the Assembler the row follows the Assembler and says so.
package c03

// kind of an operand
type kind string

const (
	kReg   kind = "reg"      // rN, N < 2^R          (name-equality loop over 2^R names)
	kIn    kind = "in"       // iN, N < arch.N       (Process_input: name-equality loop)
	kOut   kind = "out"      // oN, N < arch.M       (Process_output)
	kImm   kind = "imm"      // number, Rsize bits   (Process_number + zeros_prefix(Rsize))
	kImmS  kind = "imms"     // number, <s> bits of rsets<s>
	kRom   kind = "rom"      // number, O bits       (ROM address / jump target)
	kRam   kind = "ram"      // number, L bits       (RAM address)
	kLoc   kind = "loc"      // number, mode-dependent location: ha→O, vn→L, hy→max(O,L)
	kLocO  kind = "loco"     // as kLoc but the switch has no "vn" case: vn→O (default)
	kNice  kind = "nice"     // number, 8 bits       (tsp nice value)
	kVaddr kind = "vaddr"    // number, 8 bits, or Needed_bits(w*h) of the vtextmem box whose CP == arch.Tag
	kCh    kind = "so:ch"    // ch<N>,    N < #"channel:" constraints (Process_shared)
	kK     kind = "so:k"     // k<N>,     N < #"kbd:" constraints
	kLfsr  kind = "so:lfsr8" // lfsr8<N>, N < #"lfsr8:" constraints
	kQ     kind = "so:q"     // q<N>,     N < #"queue:" constraints
	kSt    kind = "so:st"    // st<N>,    N < #"stack:" constraints
	kU     kind = "so:u"     // u<N>,     N < #"uart:" constraints
)

// soOf maps a shared-object operand kind to (constraint name, short name) —
// shr_*.go: Shr_get_name / Shortname.
var soOf = map[kind][2]string{
	kCh:   {"channel", "ch"},  // shr_channel.go:11,15
	kK:    {"kbd", "k"},       // shr_kbd.go:11,15
	kLfsr: {"lfsr8", "lfsr8"}, // shr_lfsr8.go:11,15
	kQ:    {"queue", "q"},     // shr_queue.go:11,15
	kSt:   {"stack", "st"},    // shr_stack.go:11,15
	kU:    {"uart", "u"},      // shr_uart.go:11,15
}

func (k kind) numeric() bool {
	switch k {
	case kImm, kImmS, kRom, kRam, kLoc, kLocO, kNice, kVaddr:
		return true
	}
	return false
}

type opRow struct {
	kinds []kind
	stub  bool // Assembler is a "// TODO" body that ignores its operands and emits zeros
}

var (
	rr   = []kind{kReg, kReg}
	r1   = []kind{kReg}
	none = []kind{}
)

// operandKinds: opcode name (or dynamic family key, see familyOf) -> operand kinds.
var operandKinds = map[string]opRow{
	// ---- two registers: two name-equality loops, zeros_prefix(R, get_binary(i))
	"adc":     {kinds: rr}, // op_adc.go:89
	"add":     {kinds: rr}, // op_add.go:83
	"addf":    {kinds: rr}, // op_addf.go:154
	"addf16":  {kinds: rr}, // op_addf16.go:148
	"addp":    {kinds: rr}, // op_addp.go:120
	"and":     {kinds: rr}, // op_and.go:83
	"chc":     {kinds: rr}, // op_chc.go:398
	"cmpr":    {kinds: rr}, // op_cmpr.go:108
	"cmprlt":  {kinds: rr}, // op_cmprlt.go:108
	"cpy":     {kinds: rr}, // op_cpy.go:88
	"div":     {kinds: rr}, // op_div.go:83
	"divf":    {kinds: rr}, // op_divf.go:147
	"divf16":  {kinds: rr}, // op_divf16.go:148
	"divp":    {kinds: rr}, // op_divp.go:121
	"m2rri":   {kinds: rr}, // op_m2rri.go:193 — Op_show_assembler (op_m2rri.go:23) and Op_get_instruction_len say "[R(Reg)] [O(Location)]"; the Assembler takes two registers
	"mod":     {kinds: rr}, // op_mod.go:83
	"mulc":    {kinds: rr}, // op_mulc.go:89
	"mult":    {kinds: rr}, // op_mult.go:83
	"multf":   {kinds: rr}, // op_multf.go:146
	"multf16": {kinds: rr}, // op_multf16.go:147
	"multp":   {kinds: rr}, // op_multp.go:121
	"nand":    {kinds: rr}, // op_nand.go:83
	"nor":     {kinds: rr}, // op_nor.go:83
	"not":     {kinds: rr}, // op_not.go:83
	"or":      {kinds: rr}, // op_or.go:83
	"r2mri":   {kinds: rr}, // op_r2mri.go:142 — show string says "[L(RAM address)]"; Assembler and length use two registers
	"r2vri":   {kinds: rr}, // op_r2vri.go:159
	"ro2rri":  {kinds: rr}, // op_ro2rri.go:125 — show string says "[O(Location)]"; Assembler and length use two registers
	"rsc":     {kinds: rr}, // op_rsc.go:89
	"sbc":     {kinds: rr}, // op_sbc.go:89
	"sub":     {kinds: rr}, // op_sub.go:82
	"xnor":    {kinds: rr}, // op_xnor.go:83
	"xor":     {kinds: rr}, // op_xor.go:83

	// ---- one register
	"addi":    {kinds: r1}, // op_addi.go:142
	"chw":     {kinds: r1}, // op_chw.go:373
	"cil":     {kinds: r1}, // op_cil.go:70
	"cilc":    {kinds: r1}, // op_cilc.go:88
	"cir":     {kinds: r1}, // op_cir.go:70
	"cirn":    {kinds: r1}, // op_cirn.go:69
	"clr":     {kinds: r1}, // op_clr.go:79
	"dec":     {kinds: r1}, // op_dec.go:89
	"expf":    {kinds: r1}, // op_expf.go:82
	"inc":     {kinds: r1}, // op_inc.go:105
	"incc":    {kinds: r1}, // op_incc.go:88
	"jcmpria": {kinds: r1}, // op_jcmpria.go:91
	"jcmprio": {kinds: r1}, // op_jcmprio.go:90
	"jri":     {kinds: r1}, // op_jri.go:78
	"jria":    {kinds: r1}, // op_jria.go:83
	"jrio":    {kinds: r1}, // op_jrio.go:82

	// ---- no operand (the body never looks at words)
	"clc":  {kinds: none}, // op_clc.go:69
	"cset": {kinds: none}, // op_cset.go:68
	"hlt":  {kinds: none}, // op_hlt.go:63
	"nop":  {kinds: none}, // op_nop.go:77

	// ---- explicit stubs: "// TODO" Assembler that ignores words and emits zeros, "// TODO" Disassembler returning ""
	"dpc": {kinds: none, stub: true},         // op_dpc.go:59
	"hit": {kinds: []kind{kReg}, stub: true}, // op_hit.go:96 — show string promises "[R(Reg)] [barrier]", body is the stub
	"je":  {kinds: none, stub: true},         // op_je.go:59
	"r2s": {kinds: none, stub: true},         // op_r2s.go:114
	"s2r": {kinds: none, stub: true},         // op_s2r.go:110

	// ---- register + port
	"i2r":    {kinds: []kind{kReg, kIn}},      // op_i2r.go:144   Process_input(words[1], N), zeros_prefix(Inputs_bits)
	"i2rw":   {kinds: []kind{kReg, kIn}},      // op_i2rw.go:150
	"sic":    {kinds: []kind{kReg, kIn}},      // op_sic.go:120
	"sicv3":  {kinds: []kind{kReg, kIn}},      // op_sicv3.go:172
	"sicv2":  {kinds: []kind{kReg, kIn, kIn}}, // op_sicv2.go:184 — three words; show string lists one input
	"cmpv":   {kinds: []kind{kIn}},            // op_cmpv.go:89
	"r2o":    {kinds: []kind{kReg, kOut}},     // op_r2o.go:152   Process_output(words[1], M), zeros_prefix(Outputs_bits)
	"r2owa":  {kinds: []kind{kReg, kOut}},     // op_r2owa.go:171
	"r2owaa": {kinds: []kind{kReg, kOut}},     // op_r2owaa.go:173

	// ---- jumps: Process_number + zeros_prefix(locationBits)
	"j":     {kinds: []kind{kLoc}},       // op_j.go:114     switch Modes[0]: ha→O vn→L hy→max
	"saj":   {kinds: []kind{kLoc}},       // op_saj.go:106
	"jcmpl": {kinds: []kind{kLoc}},       // op_jcmpl.go:126
	"ja":    {kinds: []kind{kLoc}},       // op_ja.go:111    no "ha" case: default O (same width as kLoc); length func returns 0 in ha
	"jcmpa": {kinds: []kind{kLoc}},       // op_jcmpa.go:129 idem
	"jo":    {kinds: []kind{kLocO}},      // op_jo.go:110    no "vn" case: default O; length func returns 0 in vn
	"jcmpo": {kinds: []kind{kLocO}},      // op_jcmpo.go:128 idem
	"jc":    {kinds: []kind{kRom}},       // op_jc.go:84     always O
	"jz":    {kinds: []kind{kReg, kRom}}, // op_jz.go:86
	"jgt0f": {kinds: []kind{kReg, kRom}}, // op_jgt0f.go:76
	"ro2r":  {kinds: []kind{kReg, kRom}}, // op_ro2r.go:95

	// ---- memory
	"m2r": {kinds: []kind{kReg, kRam}},   // op_m2r.go:137  zeros_prefix(L)
	"r2m": {kinds: []kind{kReg, kRam}},   // op_r2m.go:125
	"r2v": {kinds: []kind{kReg, kVaddr}}, // op_r2v.go:164  ramDepth 8, or Needed_bits(w*h) of the vtextmem box with box[0]==arch.Tag

	// ---- immediates
	"rset":  {kinds: []kind{kReg, kImm}},        // op_rset.go:82      zeros_prefix(Rsize)
	"rsets": {kinds: []kind{kReg, kImmS}},       // dynop_rsets.go:76  zeros_prefix(op.s)          (family rsets<s>)
	"tsp":   {kinds: []kind{kReg, kLoc, kNice}}, // op_tsp.go:158 no padding loop, no unknown-register check

	// ---- shared objects: Process_shared(shortname, words[1], Shared_num(name)), zeros_prefix(Shared_bits(name))
	"wrd":     {kinds: []kind{kReg, kCh}},   // op_wrd.go:146
	"wwr":     {kinds: []kind{kReg, kCh}},   // op_wwr.go:195
	"k2r":     {kinds: []kind{kReg, kK}},    // op_k2r.go:129
	"lfsr82r": {kinds: []kind{kReg, kLfsr}}, // op_lfsr82r.go:107
	"q2r":     {kinds: []kind{kReg, kQ}},    // op_q2r.go:129
	"r2q":     {kinds: []kind{kReg, kQ}},    // op_r2q.go:137
	"r2t":     {kinds: []kind{kReg, kSt}},   // op_r2t.go:137
	"t2r":     {kinds: []kind{kReg, kSt}},   // op_t2r.go:129
	"r2u":     {kinds: []kind{kReg, kU}},    // op_r2u.go:137
	"u2r":     {kinds: []kind{kReg, kU}},    // op_u2r.go:129

	// ---- dynamic families (keys are family names, see familyOf)
	"callo": {kinds: []kind{kRom}}, // dynop_call.go:225 OP_CALLO: O bits
	"calla": {kinds: []kind{kRam}}, // dynop_call.go:225 OP_CALLA: L bits
	"ret":   {kinds: none},         // dynop_call.go:225 OP_RET: len(words)==0 enforced
	"push":  {kinds: r1},           // dynop_stack.go:189
	"pull":  {kinds: r1},           // dynop_stack.go:189
	"fps":   {kinds: rr},           // dynop_fixed_point.go:131     (addfps/multfps/divfps<s>f<f>)
	"fxps":  {kinds: rr},           // dynop_fxp.go:168             (addfxps/multfxps/divfxps<s>f<f>)
	"lqs":   {kinds: rr},           // dynop_linear_quantizer.go:172 (addlqs/multlqs/divlqs<s>t<t>)
	"flpe":  {kinds: rr},           // dynop_flopoco.go:154         (addflpe/multflpe/divflpe<e>f<f>)
}
