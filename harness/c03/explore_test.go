package c03

import (
	"fmt"
	"sort"
	"testing"

	"github.com/BondMachineHQ/BondMachine/pkg/bmnumbers"
	"github.com/BondMachineHQ/BondMachine/pkg/procbuilder"
)

func TestExplore(t *testing.T) {
	var ks []string
	for k := range bmnumbers.AllMatchers {
		ks = append(ks, k)
	}
	sort.Strings(ks)
	for _, k := range ks {
		fmt.Println(k)
	}
	fmt.Println(len(procbuilder.Allopcodes))
	for _, n := range []string{"rsets5", "callo8st", "calla8st", "ret8st", "push8st", "pull8st", "addfps8f4", "multfxps8f4", "addlqs8t1", "addflpe4f4"} {
		ok, err := procbuilder.EventuallyCreateInstruction(n)
		fmt.Println(n, ok, err)
	}
	m := new(procbuilder.Machine)
	m.Rsize = 8
	m.R, m.O = 2, 3
	m.Modes = []string{"ha"}
	for _, op := range procbuilder.Allopcodes {
		if op.Op_get_name() == "rset" || op.Op_get_name() == "nop" {
			m.Op = append(m.Op, op)
		}
	}
	for _, l := range []string{"rset r0 300", "rset r1 255", "rset r4 1", "rset r0 0x1ff", "RSET  R0\t0b101"} {
		w, err := m.Arch.Assembler_process_line([]byte(l))
		fmt.Printf("%q -> %q %v max=%d\n", l, w, err, m.Max_word())
	}
	m.Rsize = 64
	w, err := m.Arch.Assembler_process_line([]byte("rset r0 18446744073709551615"))
	fmt.Println(w, err, len(w), m.Max_word())
	m.Program.Slocs = []string{w}
	fmt.Println(m.Disassembler())
}
