// Package c05 — an assembled BASM program means what its source says.
//
// asm.go: the in-process replica of what cmd/basm does with a .basm source
// (cmd/basm/main.go: new BasmInstance, BMinfo, BasmInstanceInit(nil),
// ParseAssembly…Default, RunAssembler, Assembler2BondMachine, GetBondMachine) and the
// simulation of the produced machine under gen.Runner.
package c05

import (
	"fmt"
	"io"
	"log"
	"os"
	"reflect"
	"runtime/debug"
	"strings"
	"sync"
	"unsafe"

	"github.com/BondMachineHQ/BondMachine/pkg/basm"
	"github.com/BondMachineHQ/BondMachine/pkg/bmconfig"
	"github.com/BondMachineHQ/BondMachine/pkg/bminfo"
	"github.com/BondMachineHQ/BondMachine/pkg/bmreqs"
	"github.com/BondMachineHQ/BondMachine/pkg/bondmachine"
	"github.com/BondMachineHQ/BondMachine/pkg/procbuilder"
	"verifharness/gen"
)

var (
	quietOnce sync.Once
	devNull   *os.File
)

// The assembler reports warnings with fmt.Println / log.Println ("No inputs found on ROM/RAM
// code, assuming 0", …). They are not part of the property; thousands of them per run would
// bury the runner's own lines, so stdout is pointed at /dev/null while the assembler runs.
func quiet() func() {
	quietOnce.Do(func() {
		devNull, _ = os.OpenFile(os.DevNull, os.O_WRONLY, 0)
	})
	if devNull == nil || os.Getenv("C05_VERBOSE") != "" {
		return func() {}
	}
	oldOut := os.Stdout
	oldLog := log.Writer()
	os.Stdout = devNull
	log.SetOutput(io.Discard)
	return func() {
		os.Stdout = oldOut
		log.SetOutput(oldLog)
	}
}

// closeReqs stops the bmreqs server goroutine that BasmInstanceInit started. BasmInstance
// has no exported way to reach it (field rg, no Close method), so without this every
// assembly leaves one goroutine behind for the life of the process. The field is looked
// up by name, a renamed field makes this a no-op (and TestNoGoroutineGrowth red).
func closeReqs(bi *basm.BasmInstance) {
	f := reflect.ValueOf(bi).Elem().FieldByName("rg")
	if !f.IsValid() || f.Kind() != reflect.Ptr || f.IsNil() {
		return
	}
	if f.Type() != reflect.TypeOf((*bmreqs.ReqRoot)(nil)) {
		return
	}
	rg := *(**bmreqs.ReqRoot)(unsafe.Pointer(f.UnsafeAddr()))
	rg.Close()
}

// Phase names of assemble's error.
const (
	phParse = "parse"
	phRun   = "passes"
	phBM    = "create"
)

type asmError struct {
	Phase string
	Err   error
	Where string // for a panic: the innermost function of the repository on the stack
}

func (e *asmError) Error() string { return e.Phase + ": " + e.Err.Error() }

// Configurations of the assembler (the switches of cmd/basm that change what a source is turned into).
const (
	cfgDefault = "default" // no switch
	cfgNoDyn   = "nodyn"   // -disable-dynamical-matching
	cfgMinWord = "minword" // -chooser-min-word-size
	cfgMinSame = "minsame" // -chooser-min-word-size -chooser-force-same-name
)

// The opcode registry is process-wide and grows when a dynamical instruction (rsets5, …) is created
// (procbuilder.EventuallyCreateInstruction appends to Allopcodes; BasmInstanceInit derives the matcher
// list of every later instance from it). cmd/basm assembles one program per process, so every case
// starts from the registry of a fresh process.
var pristineOpcodes = len(procbuilder.Allopcodes)

func resetRegistries() {
	if len(procbuilder.Allopcodes) > pristineOpcodes {
		procbuilder.Allopcodes = procbuilder.Allopcodes[:pristineOpcodes:pristineOpcodes]
	}
}

// assemble replicates the CLI sequence. A panic of the assembler is returned as an
// asmError with phase "<phase>-panic" (the caller decides whether the source was in
// the documented domain).
func assemble(src string, cfg string) (bm *bondmachine.Bondmachine, aerr *asmError) {
	restore := quiet()
	defer restore()
	resetRegistries()
	defer resetRegistries()
	bi := new(basm.BasmInstance)
	bi.BMinfo = new(bminfo.BMinfo)
	bi.BasmInstanceInit(nil)
	defer closeReqs(bi)
	switch cfg {
	case cfgNoDyn:
		bi.Activate(bmconfig.DisableDynamicalMatching)
	case cfgMinWord:
		bi.Activate(bmconfig.ChooserMinWordSize)
	case cfgMinSame:
		bi.Activate(bmconfig.ChooserMinWordSize)
		bi.Activate(bmconfig.ChooserForceSameName)
	}
	phase := phParse
	defer func() {
		if r := recover(); r != nil {
			bm = nil
			aerr = &asmError{Phase: phase + "-panic", Err: fmt.Errorf("%v", r), Where: panicSite(string(debug.Stack()))}
		}
	}()
	if err := bi.ParseAssemblyStringDefault(src); err != nil {
		return nil, &asmError{Phase: phParse, Err: err}
	}
	phase = phRun
	if err := bi.RunAssembler(); err != nil {
		return nil, &asmError{Phase: phRun, Err: err}
	}
	phase = phBM
	if err := bi.Assembler2BondMachine(); err != nil {
		return nil, &asmError{Phase: phBM, Err: err}
	}
	bm = bi.GetBondMachine()
	if bm == nil {
		return nil, &asmError{Phase: phBM, Err: fmt.Errorf("GetBondMachine returned nil")}
	}
	return bm, nil
}

// simulate steps the machine for a fixed number of ticks under a protocol-abiding
// environment and returns the value stream accepted on every external output.
func simulate(bm *bondmachine.Bondmachine, env gen.Env, ticks int) (out [][]uint64, sent []int, err error) {
	defer func() {
		if r := recover(); r != nil {
			err = fmt.Errorf("simulator panic: %v", r)
		}
	}()
	if len(bm.Processors) == 0 {
		// bondmachine.VM.Step waits for the answer of at least one processor: it would never return
		return nil, nil, fmt.Errorf("machine without processors")
	}
	r, e := gen.NewRunner(bm, env, nil)
	if e != nil {
		return nil, nil, e
	}
	defer r.Close()
	for i := 0; i < ticks; i++ {
		if e := r.Step(); e != nil {
			return r.Out, r.Sent, e
		}
	}
	return r.Out, r.Sent, nil
}

func procbuilderAllopcodes() []procbuilder.Opcode { return procbuilder.Allopcodes }

// panicSite extracts the innermost frame of the repository from a stack dump ("basm.templateResolver").
func panicSite(stack string) string {
	for _, l := range strings.Split(stack, "\n") {
		if i := strings.Index(l, "BondMachineHQ/BondMachine/pkg/"); i >= 0 && !strings.HasPrefix(l, "\t") {
			f := l[i+len("BondMachineHQ/BondMachine/pkg/"):]
			if j := strings.LastIndexByte(f, '('); j > 0 {
				f = f[:j]
			}
			return f
		}
	}
	return ""
}
