package c05

import (
	"encoding/json"
	"fmt"
	"os"
	"testing"

	"verifharness/gen"
	"verifharness/pbt"
)

// TestInspect is a triage aid, not a check: C05_REPLAY=<replay file> (or C05_SRC=<.basm file> with
// C05_CFG) prints the disassembled machine, the streams of the machine and of the reference, and
// what every CP does when it is assembled alone.
func TestInspect(t *testing.T) {
	var c Case
	switch {
	case os.Getenv("C05_REPLAY") != "":
		b, err := os.ReadFile(os.Getenv("C05_REPLAY"))
		if err != nil {
			t.Fatal(err)
		}
		var rf pbt.ReplayFile
		if err := json.Unmarshal(b, &rf); err != nil {
			t.Fatal(err)
		}
		if err := json.Unmarshal(rf.Case, &c); err != nil {
			t.Fatal(err)
		}
	case os.Getenv("C05_SRC") != "":
		b, err := os.ReadFile(os.Getenv("C05_SRC"))
		if err != nil {
			t.Fatal(err)
		}
		c = Case{Src: string(b), Cfg: os.Getenv("C05_CFG"), Ticks: 300, In: [][]uint64{{1, 2, 3, 4, 5, 6, 7, 8}, {10, 20, 30, 40, 50, 60}, {7, 7, 7, 7}}}
	default:
		t.Skip("C05_REPLAY / C05_SRC not set")
	}
	fmt.Printf("cfg=%s ticks=%d in=%v gap=%v stall=%v\n%s\n", c.Cfg, c.Ticks, c.In, c.InGap, c.OutStall, c.Src)
	bm, aerr := assemble(c.Src, c.Cfg)
	if aerr != nil {
		fmt.Println("ASSEMBLER:", aerr)
	} else {
		fmt.Println("inputs", bm.Inputs, "outputs", bm.Outputs, "bonds", bondSet(bm))
		for i, d := range bm.Domains {
			dis, _ := d.Disassembler()
			fmt.Printf("--- p%d R=%d N=%d M=%d O=%d L=%d\n%s", i, d.R, d.N, d.M, d.O, d.L, dis)
			if len(d.Data.Vars) > 0 {
				fmt.Println("    rom data:", d.Data.Vars)
			}
		}
		out, sent, err := simulate(bm, gen.Env{In: c.In, InGap: c.InGap, OutStall: c.OutStall}, c.Ticks)
		fmt.Println("machine:", out, "sent", sent, "err", err)
	}
	rs, err := parseSource(c.Src)
	if err != nil {
		fmt.Println("REFERENCE:", err)
		return
	}
	net, err := rs.network()
	if err != nil {
		fmt.Println("REFERENCE:", err)
		return
	}
	ref := net.run(c.In, c.Ticks+8, 0, false)
	fmt.Println("source :", ref.Out, fmt.Sprintf("%+v", ref.Stats))
	fmt.Println("declared bonds", net.wiring())
	for ci := range rs.CPs {
		src, inCh, outCh := aloneSource(c.Src, rs, net, ci)
		abm, aerr := assemble(src, c.Cfg)
		if aerr != nil {
			fmt.Println("alone", rs.CPs[ci].Name, aerr)
			continue
		}
		env := gen.Env{}
		for _, ch := range inCh {
			env.In = append(env.In, ref.Chans[ch].Hist)
		}
		out, _, err := simulate(abm, env, 2*c.Ticks)
		fmt.Println("alone", rs.CPs[ci].Name, "machine:", out, err)
		for _, ch := range outCh {
			fmt.Println("      ", ref.Chans[ch].Name, "source :", ref.Chans[ch].Hist)
		}
	}
	fmt.Printf("outcome main: %+v\n", evalCase(c, modeMain).Fail)
}
