package c05

import (
	"fmt"
	"os"
	"testing"

	"verifharness/gen"
)

func TestScratch(t *testing.T) {
	p := os.Getenv("C05_SRC")
	if p == "" {
		t.Skip()
	}
	b, _ := os.ReadFile(p)
	bm, err := assemble(string(b), os.Getenv("C05_CFG"))
	if err != nil {
		fmt.Println("ASM ERROR:", err)
		return
	}
	fmt.Println("inputs", bm.Inputs, "outputs", bm.Outputs, "links", bm.Links, "bonds", bm.List_bonds())
	for i, d := range bm.Domains {
		dis, _ := d.Disassembler()
		fmt.Printf("CP%d R=%d N=%d M=%d O=%d L=%d ops=%d\n%s\n", i, d.R, d.N, d.M, d.O, d.L, len(d.Op), dis)
	}
	out, sent, e := simulate(bm, gen.Env{In: [][]uint64{{1, 2, 3, 4, 5, 6, 7, 8}, {10, 20, 30, 40}}}, 400)
	fmt.Println("OUT", out, "sent", sent, "err", e)
}
