package c05

import (
	"fmt"
	"regexp"
	"sort"
	"testing"

	"github.com/BondMachineHQ/BondMachine/pkg/bmnumbers"
)

func TestScratchMatchers(t *testing.T) {
	var ks []string
	for k := range bmnumbers.AllMatchers {
		ks = append(ks, k)
	}
	sort.Strings(ks)
	for _, k := range ks {
		fmt.Println(k)
	}
	for _, lit := range []string{"0", "12", "100", "0x10", "0xff", "0b101", "0d12", "0d100", "0u7", "0u<8>12", "0d<16>300", "0x<8>0a", "0b<8>11", "0x<16>0a"} {
		n := 0
		for _, k := range ks {
			if regexp.MustCompile(k).MatchString(lit) {
				n++
			}
		}
		v, err := bmnumbers.ImportString(lit)
		var s string
		if err == nil {
			s, _ = v.ExportBinary(false)
		}
		fmt.Println(lit, "matchers:", n, s, err)
	}
}
