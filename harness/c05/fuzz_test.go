package c05

import (
	"strings"
	"testing"

	"verifharness/pbt"
)

// FuzzParseAssembly — native fuzzing of the text front end (thorough tier only).
//
// The property statement promises nothing about garbage, so the oracle is restricted to:
//  1. a text the line parser accepts (ParseAssemblyStringDefault returns nil) must not make a later
//     pass or the machine builder panic — a clean error is fine; a panic inside the line parser itself
//     is counted as out of domain;
//  2. if, in addition, the mutated text is still inside the subset the reference interpreter reads and
//     the assembler produces a machine, the full stream comparison of the main campaign applies.
//
// Seeds: small sources of every shape the generator knows.
var fuzzSeeds = []string{
	"%section code .romtext iomode:sync\n\tentry start\nstart:\n\trset r0, 0x05\nlp:\n\tmov o0, r0\n\tinc r0\n\tnop\n\tnop\n\tj lp\n%endsection\n%meta cpdef cpu romcode: code\n%meta ioatt out0 cp: cpu, index:0, type:output\n%meta ioatt out0 cp: bm, index:0, type:output\n%meta bmdef global registersize:8\n",
	"%macro emit 0\n\tmov o0, r1\n\tinc r1\n\tnop\n\tnop\n%endmacro\n%section a .romtext\n\tentry s\ns:\nt:\n\trset r2, 0b11\nb:\n\tnop\n\temit\n\tdec r2\n\tjz r2, d\n\tjmp b\nd:\n\tmov r0, i0\n\tnop\n\tnop\n\tnop\n\tmov o0, r0\n\tnop\n\tnop\n\tnop\n\tj d\n%endsection\n%meta cpdef c0 romcode: a, execmode: ha\n%meta ioatt o cp: c0, index:0, type:output\n%meta ioatt o cp: bm, index:0, type:output\n%meta ioatt i cp: c0, index:0, type:input\n%meta ioatt i cp: bm, index:0, type:input\n%meta bmdef global registersize:16, iomode:sync\n",
	"%section p .romtext iomode:sync\n entry a\na:\n rset r0, 1\nl:\n r2owa r0, o0\n add r0, r0\n nop\n nop\n j l\n%endsection\n%section q .romtext iomode:sync\n entry a\na:\n i2rw r1, i0\n inc r1\n nop\n nop\n mov o0, r1\n nop\n nop\n nop\n j a\n%endsection\n%meta cpdef x romcode: p\n%meta cpdef y romcode: q\n%meta ioatt l cp: x, index:0, type:output\n%meta ioatt l cp: y, index:0, type:input\n%meta ioatt o cp: y, index:0, type:output\n%meta ioatt o cp: bm, index:0, type:output\n%meta bmdef global registersize:32\n",
}

// knownFuzzPanics: crash sites the fuzzer reached with texts the line parser accepts but that are not
// well-formed programs (outside the property statement; listed in the report as observations). They are
// skipped so that the search continues behind them.
var knownFuzzPanics = map[string]string{
	"basm.templateResolver": "a cpdef with a user-defined key (templated) names a romcode section that does not exist: nil section dereferenced",
}

func FuzzParseAssembly(f *testing.F) {
	for i, s := range fuzzSeeds {
		f.Add(s, uint8(i))
	}
	cfgs := []string{cfgNoDyn, cfgDefault, cfgMinWord, cfgMinSame}
	f.Fuzz(func(t *testing.T, src string, sel uint8) {
		if len(src) > 6000 {
			t.Skip()
		}
		for _, l := range strings.Split(src, "\n") {
			if len(l) > 200 {
				t.Skip() // procbuilder.Arch.Assembler reads lines into a 256 byte buffer: out of domain
			}
		}
		pbt.FuzzTrace(src, sel)
		cfg := cfgs[int(sel)%len(cfgs)]
		if _, aerr := assemble(src, cfg); aerr != nil {
			if aerr.Phase == phParse+"-panic" || aerr.Phase == phParse {
				return // not accepted by the line parser (or the parser itself panics on garbage): out of domain
			}
			if strings.HasSuffix(aerr.Phase, "-panic") {
				if why, known := knownFuzzPanics[aerr.Where]; known {
					t.Skip("known crash site: " + why)
				}
				t.Fatalf("sig=asm-panic the line parser accepts the text, then the assembler panics (%s in %s): %v\n--- source ---\n%s", aerr.Phase, aerr.Where, aerr.Err, src)
			}
			return // clean error
		}
		c := Case{Src: src, Cfg: cfg, Ticks: 160, In: [][]uint64{{1, 2, 3, 4, 5, 6, 7, 8}, {9, 8, 7, 6, 5, 4, 3, 2}, {0, 255, 0, 255}, {5, 5, 5, 5}}}
		out := evalCase(c, modeFuzz)
		if out.Fail == nil {
			return
		}
		if out.Fail.Sig == "asm-panic" && strings.Contains(out.Fail.Msg, "("+phParse+"-panic)") {
			return // the line parser itself panics on this text: garbage, out of domain
		}
		t.Fatalf("sig=%s %s", out.Fail.Sig, out.Fail.Msg)
	})
}
