package c05

// gen.go: grammar-based generator of .basm sources. All randomness comes from rapid draws.
//
// Directive syntax follows the sources the repository itself emits (pkg/bmbuilder/generator_maxpool.go,
// pkg/bmqsim/files_*.go, library/neurons/*.basm) and the parser (pkg/basm/asmparser.go, meta.go):
//
//	%section <name> .romtext [iomode:sync]      …  %endsection
//	    entry <label>
//	<label>:
//	    <mnemonic> <operand>, <operand>          ; comment
//	%macro <name> 0  …  %endmacro
//	%meta cpdef <cp> romcode: <section>[, romdata: <data section>][, execmode: ha]
//	%section <name> .romdata  …  %endsection     with lines  <symbol> db <byte>[, <byte>]…   (docinstructions.md)
//	    mov rX, rom:<symbol>   (ROM address of the symbol)      mov rY, rom:[rX]   (ROM cell at the address in rX)
//	%meta ioatt <bond> cp: <cp|bm>, index:<k>, type:<input|output>      (two lines with the same <bond>)
//	%meta bmdef global registersize:<n>[, iomode:sync]

import (
	"fmt"
	"sort"
	"strings"

	"pgregory.net/rapid"
)

// Case is what the property consumes: the source text and the environment of the simulation.
type Case struct {
	Src      string
	Cfg      string     // assembler configuration: default | nodyn | minword | minsame (asm.go)
	In       [][]uint64 // value stream offered on every external input
	InGap    []int
	OutStall []int
	Ticks    int
}

type genOpts struct {
	// entry label placement: 0 = on the first instruction, 1 = never on the first instruction (D6 campaign),
	// 2 = first, except for a small share that is counted as excluded
	Entry int
	// odd macro shapes (adjacent uses, label on a use, nested macros, inner labels reused, empty bodies)
	OddMacros bool
	MaxCPs    int
	// Leak: one macro that outputs with the pseudo-instruction mov is expanded both in the section the CP runs
	// (sync) and in a section nobody runs (async) — the shape of the shared-macro-lines defect
	Leak bool
}

const (
	kLabel = iota
	kInstr
	kEntry
	kUse
)

type srcItem struct {
	Kind int
	Name string // label / entry target / macro name
	Op   string
	Args []string
	Atom bool // part of an IO unit (IO instruction + its padding): nothing may be inserted before it
	// Meta: line-level metadata written after a label ("lbl: iomode:sync"); the line parser applies it to
	// the next instruction line
	Meta string
}

type macroDef struct {
	Name       string
	Items      []srcItem
	InnerLabel bool
	UsesOut    bool
	Nested     bool
	MaxReg     int
	// Outer: the body jumps to this label, which every section that uses the macro defines itself (library
	// style: `%macro again 0 / inc r0 / j loop / %endmacro`). Closer: the jump is unconditional and ends the
	// body (the macro closes the main loop of a section); otherwise it is a `jz rK, <Outer>` forward skip.
	Outer  string
	Closer bool
}

// dataVar is a symbol every data section of the source declares, with at least Min cells.
type dataVar struct {
	Name string
	Min  int
}

type dataLine struct {
	Name  string
	Exprs []string
}

type dataSrc struct {
	Name  string
	Lines []dataLine
}

// uni draws 0..n-1 from fair coins: rapid's integer generators favour small magnitudes, which would distort
// the weights of the structural choices (harness/c12/gen.go).
func uni(t *rapid.T, n int, label string) int {
	k := 3
	for (1 << uint(k-3)) < n {
		k++
	}
	v := 0
	for i := 0; i < k; i++ {
		v <<= 1
		if rapid.Bool().Draw(t, label) {
			v |= 1
		}
	}
	return v % n
}

type secGen struct {
	t        *rapid.T
	rsize    int
	nData    int   // data registers r0..nData-1
	ctr      []int // counter registers, one per loop depth
	maxIn    int   // input ports the program may use (0 = none)
	maxOut   int
	labels   map[string]bool
	items    []srcItem
	usedIn   map[int]bool
	usedOut  map[int]bool
	macros   []*macroDef
	explicit bool // also writes i2rw/r2owa/cpy/rset/j/nop instead of the pseudo forms
	movLit   int  // mov <reg>, <literal>: 0 = never (rset is written), 1 = only for literals < 32, 2 = any literal
	budget   int
	// base: io mode the section-level / global metadata give to a pseudo-move of this program ("sync",
	// "async" or "" = none at either level). Where it is not sync every mov to/from a port carries
	// line-level `iomode:sync` metadata (precedence implemented by metadatainfer.go: line, section, global).
	base   string
	noLine bool // macro bodies: no line-level metadata
	// vars: symbols of the data section(s) the CPs of this program get (nil = no ROM data)
	vars []dataVar
	// skippers: macros with a `jz rK, <Outer>` not yet used by this section
	skippers []*macroDef
}

// emitReg sends register r to an output port.
func (g *secGen) emitReg(r string) {
	k := choosePort(g.t, g.maxOut, g.usedOut, "oport")
	g.usedOut[k] = true
	if g.explicit && rapid.Bool().Draw(g.t, "r2owaform") {
		g.ins("r2owa", r, fmt.Sprintf("o%d", k))
	} else {
		g.lineIO()
		g.ins("mov", fmt.Sprintf("o%d", k), r)
	}
	g.pads()
}

// romRead loads the ROM address of a data symbol, walks 0..Min-1 cells into it and reads the cell.
func (g *secGen) romRead(andEmit bool) {
	v := g.vars[uni(g.t, len(g.vars), "romvar")]
	rp, rd := g.dreg("rp"), g.dreg("rd")
	op := "mov"
	if g.explicit && rapid.Bool().Draw(g.t, "rsetsymform") {
		op = "rset"
	}
	g.ins(op, rp, "rom:"+v.Name)
	for i, k := 0, uni(g.t, v.Min, "romwalk"); i < k; i++ {
		g.ins("inc", rp)
	}
	g.ins("mov", rd, "rom:["+rp+"]")
	if andEmit {
		g.emitReg(rd)
	}
}

// lineIO writes, in front of a pseudo-move, a label that carries line-level io mode metadata.
func (g *secGen) lineIO() {
	if g.noLine {
		return
	}
	if g.base == "sync" && rapid.IntRange(0, 3).Draw(g.t, "lineio") != 1 {
		return
	}
	g.items = append(g.items, srcItem{Kind: kLabel, Name: g.newLabel(), Meta: "iomode:sync"})
}

// litOp picks the mnemonic that loads literal v.
func (g *secGen) litOp(v uint64) string {
	if g.movLit == 0 || (g.movLit == 1 && v >= 32) {
		return "rset"
	}
	if g.explicit && rapid.Bool().Draw(g.t, "rsetform") {
		return "rset"
	}
	return "mov"
}

var labelWords = []string{"loop", "back", "next", "done", "skip", "L", "lbl", "_l", "Top", "exit", "again", "body", "head", "w", "x_y", "_start", "A", "zz"}

func (g *secGen) newLabel() string {
	for {
		w := rapid.SampledFrom(labelWords).Draw(g.t, "lw")
		switch rapid.IntRange(0, 2).Draw(g.t, "lform") {
		case 1:
			w = fmt.Sprintf("%s_%d", w, rapid.IntRange(0, 9).Draw(g.t, "ln"))
		case 2:
			if w[0] >= 'A' && w[0] <= 'Z' || w[0] == '_' {
				w = fmt.Sprintf("%s%d", w, rapid.IntRange(0, 99).Draw(g.t, "ln"))
			}
		}
		if !g.labels[w] {
			g.labels[w] = true
			return w
		}
		if len(g.labels) > 40 {
			w = fmt.Sprintf("G_%d", len(g.labels))
			if !g.labels[w] {
				g.labels[w] = true
				return w
			}
		}
	}
}

// site places 1..3 labels on the next instruction and returns the names.
func (g *secGen) site() []string {
	n := 1
	if rapid.IntRange(0, 3).Draw(g.t, "multilabel") == 0 {
		n = rapid.IntRange(2, 3).Draw(g.t, "nlabels")
	}
	var names []string
	for i := 0; i < n; i++ {
		names = append(names, g.newLabel())
	}
	return names
}

func (g *secGen) place(names []string) {
	for _, n := range names {
		g.items = append(g.items, srcItem{Kind: kLabel, Name: n})
	}
}

func (g *secGen) pick(names []string) string {
	if len(names) == 1 {
		return names[0]
	}
	return rapid.SampledFrom(names).Draw(g.t, "alias")
}

func (g *secGen) ins(op string, args ...string) {
	g.items = append(g.items, srcItem{Kind: kInstr, Op: op, Args: args})
}

func (g *secGen) dreg(l string) string {
	return fmt.Sprintf("r%d", rapid.IntRange(0, g.nData-1).Draw(g.t, l))
}

// literal renders v (already < 2^rsize) in one of the integer notations.
func literal(t *rapid.T, v uint64, rsize int) string {
	switch rapid.IntRange(0, 9).Draw(t, "notation") {
	case 0, 1:
		return fmt.Sprintf("%d", v)
	case 2:
		if rapid.Bool().Draw(t, "upper") {
			return fmt.Sprintf("0x%X", v)
		}
		return fmt.Sprintf("0x%x", v)
	case 3:
		// leading zeros are part of the notation
		return fmt.Sprintf("0x%0*x", rapid.IntRange(1, 6).Draw(t, "hexw"), v)
	case 4:
		return fmt.Sprintf("0b%b", v)
	case 5:
		return fmt.Sprintf("0d%d", v)
	case 6:
		if rapid.Bool().Draw(t, "dot0") {
			return fmt.Sprintf("0u%d.%s", v, strings.Repeat("0", rapid.IntRange(1, 3).Draw(t, "zeros")))
		}
		return fmt.Sprintf("0u%d", v)
	case 7:
		bitsz := rapid.SampledFrom([]int{8, 16, 32, 64}).Draw(t, "hexbits")
		for bitsz < 64 && v>>uint(bitsz) != 0 {
			bitsz *= 2
		}
		return fmt.Sprintf("0x<%d>%x", bitsz, v)
	case 8:
		n := 1
		for n < 64 && v>>uint(n) != 0 {
			n++
		}
		n += rapid.IntRange(0, 3).Draw(t, "binextra")
		return fmt.Sprintf("0b<%d>%b", n, v)
	default:
		n := 1
		for n < 64 && v>>uint(n) != 0 {
			n++
		}
		if n < 62 {
			n += rapid.IntRange(0, 2).Draw(t, "uextra")
		}
		p := rapid.SampledFrom([]string{"0u", "0d"}).Draw(t, "udprefix")
		return fmt.Sprintf("%s<%d>%d", p, n, v)
	}
}

func drawValue(t *rapid.T, rsize int, l string) uint64 {
	max := ^uint64(0)
	if rsize < 64 {
		max = (uint64(1) << uint(rsize)) - 1
	}
	switch rapid.IntRange(0, 5).Draw(t, l+"_class") {
	case 0:
		return rapid.Uint64Range(0, 3).Draw(t, l)
	case 1:
		return max - rapid.Uint64Range(0, 2).Draw(t, l)
	case 2:
		return rapid.Uint64Range(0, max).Draw(t, l)
	default:
		m := uint64(255)
		if m > max {
			m = max
		}
		return rapid.Uint64Range(0, m).Draw(t, l)
	}
}

// alu appends one non-IO, non-jump instruction over the data registers.
func (g *secGen) alu(atom bool) {
	t := g.t
	var it srcItem
	mk := func(op string, args ...string) { it = srcItem{Kind: kInstr, Op: op, Args: args, Atom: atom} }
	switch rapid.IntRange(0, 9).Draw(t, "alu") {
	case 0:
		mk("inc", g.dreg("ra"))
	case 1:
		mk("dec", g.dreg("ra"))
	case 2:
		mk("clr", g.dreg("ra"))
	case 3:
		mk("add", g.dreg("ra"), g.dreg("rb"))
	case 4:
		if rapid.IntRange(0, 2).Draw(t, "multp") == 0 {
			mk("mult", g.dreg("ra"), g.dreg("rb"))
		} else {
			mk("add", g.dreg("ra"), g.dreg("rb"))
		}
	case 5:
		op := "mov"
		if g.explicit && rapid.Bool().Draw(t, "cpyform") {
			op = "cpy"
		}
		mk(op, g.dreg("ra"), g.dreg("rb"))
	case 6, 7:
		v := drawValue(t, g.rsize, "imm")
		mk(g.litOp(v), g.dreg("ra"), literal(t, v, g.rsize))
	default:
		op := "nop"
		if rapid.IntRange(0, 3).Draw(t, "noopform") == 0 {
			op = "noop"
		}
		mk(op)
	}
	g.items = append(g.items, it)
}

const ioPad = 3 // non-IO instructions after every IO instruction (keeps the simulator out of the C04 handshake quirks D4/D5)

func (g *secGen) pads() {
	for i := 0; i < ioPad; i++ {
		g.alu(true)
	}
}

func choosePort(t *rapid.T, max int, used map[int]bool, l string) int {
	if rapid.IntRange(0, 9).Draw(t, l+"_fresh") < 7 {
		for k := 0; k < max; k++ {
			if !used[k] {
				return k
			}
		}
	}
	return rapid.IntRange(0, max-1).Draw(t, l)
}

func (g *secGen) emit() {
	k := choosePort(g.t, g.maxOut, g.usedOut, "oport")
	g.usedOut[k] = true
	r := g.dreg("rout")
	if g.explicit && rapid.Bool().Draw(g.t, "r2owaform") {
		g.ins("r2owa", r, fmt.Sprintf("o%d", k))
	} else {
		g.lineIO()
		g.ins("mov", fmt.Sprintf("o%d", k), r)
	}
	g.pads()
}

func (g *secGen) input() {
	k := choosePort(g.t, g.maxIn, g.usedIn, "iport")
	g.usedIn[k] = true
	r := g.dreg("rin")
	if g.explicit && rapid.Bool().Draw(g.t, "i2rwform") {
		g.ins("i2rw", r, fmt.Sprintf("i%d", k))
	} else {
		g.lineIO()
		g.ins("mov", r, fmt.Sprintf("i%d", k))
	}
	g.pads()
}

func (g *secGen) jump(target string) {
	op := "j"
	if rapid.IntRange(0, 3).Draw(g.t, "jmpform") == 0 {
		op = "jmp"
	}
	g.ins(op, target)
}

func (g *secGen) setCounter(reg string, n uint64) {
	g.ins(g.litOp(n), reg, literal(g.t, n, g.rsize))
}

// loop: a counter-bounded loop; one backward and one forward reference.
func (g *secGen) loop(depth int, mustEmit bool, minIter int) {
	t := g.t
	rc := fmt.Sprintf("r%d", g.ctr[depth])
	n := uint64(rapid.IntRange(minIter, minIter+3).Draw(t, "iters"))
	g.setCounter(rc, n)
	head, exit := g.site(), g.site()
	if rapid.Bool().Draw(t, "testfirst") {
		// head: jz rc, exit ; body ; dec rc ; j head ; exit:
		g.place(head)
		g.ins("jz", rc, g.pick(exit))
		g.body(depth+1, mustEmit)
		g.ins("dec", rc)
		g.jump(g.pick(head))
		g.place(exit)
	} else {
		// head: body ; dec rc ; jz rc, exit ; j head ; exit:
		g.place(head)
		g.body(depth+1, mustEmit)
		g.ins("dec", rc)
		g.ins("jz", rc, g.pick(exit))
		g.jump(g.pick(head))
		g.place(exit)
	}
}

func (g *secGen) body(depth int, mustEmit bool) {
	n := rapid.IntRange(1, 3).Draw(g.t, "bodylen")
	at := -1
	if mustEmit {
		at = rapid.IntRange(0, n-1).Draw(g.t, "emitat")
	}
	for i := 0; i < n; i++ {
		if i == at {
			g.emit()
			continue
		}
		g.segment(depth)
	}
}

func (g *secGen) useMacro(m *macroDef) {
	g.items = append(g.items, srcItem{Kind: kUse, Name: m.Name})
	if m.UsesOut {
		g.usedOut[0] = true
	}
}

// segment appends one random construct.
func (g *secGen) segment(depth int) {
	t := g.t
	g.budget--
	type choice struct {
		w int
		f func()
	}
	var cs []choice
	add := func(w int, f func()) { cs = append(cs, choice{w, f}) }
	add(4, func() {
		for i, n := 0, rapid.IntRange(1, 3).Draw(t, "nalu"); i < n; i++ {
			g.alu(false)
		}
	})
	add(3, g.emit)
	if g.maxIn > 0 {
		add(2, g.input)
	}
	if g.budget > 0 {
		if depth < len(g.ctr) {
			add(2, func() { g.loop(depth, false, 1) })
		}
		// conditional forward skip over a data register
		add(2, func() {
			l := g.site()
			g.ins("jz", g.dreg("rz"), g.pick(l))
			g.body(depth, false)
			g.place(l)
		})
		// unconditional forward skip over dead code
		add(1, func() {
			l := g.site()
			g.jump(g.pick(l))
			g.body(depth, false)
			g.place(l)
		})
		// blocks laid out in a permuted order and chained by jumps
		if depth < 2 {
			add(1, func() {
				k := rapid.IntRange(2, 4).Draw(t, "nblocks")
				perm := rapid.Permutation(seqInts(k)).Draw(t, "perm")
				lab := make([][]string, k+1)
				for i := range lab {
					lab[i] = g.site()
				}
				g.jump(g.pick(lab[0]))
				for pi, b := range perm {
					g.place(lab[b])
					g.body(depth+1, false)
					// fall through when the physically next block is the logical successor
					if pi+1 < len(perm) && perm[pi+1] == b+1 && rapid.Bool().Draw(t, "fallthrough") {
						continue
					}
					g.jump(g.pick(lab[b+1]))
				}
				g.place(lab[k])
			})
		}
	}
	if len(g.macros) > 0 {
		add(3, func() {
			m := rapid.SampledFrom(g.macros).Draw(t, "macro")
			g.useMacro(m)
		})
	}
	if len(g.vars) > 0 {
		add(4, func() { g.romRead(uni(t, 4, "romemit") != 0) })
	}
	if len(g.skippers) > 0 && g.budget > 0 {
		// the conditional forward skip, its jump written in a macro: M ; body ; <Outer of M>:
		add(4, func() {
			i := uni(t, len(g.skippers), "skipper")
			m := g.skippers[i]
			g.skippers = append(append([]*macroDef(nil), g.skippers[:i]...), g.skippers[i+1:]...)
			g.useMacro(m)
			g.body(depth, false)
			l := []string{m.Outer}
			if uni(t, 3, "skipalias") == 0 {
				l = append(l, g.newLabel())
			}
			g.place(l)
		})
	}
	total := 0
	for _, c := range cs {
		total += c.w
	}
	x := rapid.IntRange(0, total-1).Draw(t, "segkind")
	for _, c := range cs {
		if x < c.w {
			c.f()
			return
		}
		x -= c.w
	}
}

func seqInts(n int) []int {
	r := make([]int, n)
	for i := range r {
		r[i] = i
	}
	return r
}

type sectionSrc struct {
	Name     string
	IOMode   string // "" = rely on the global one
	Items    []srcItem
	UsedIn   []int
	UsedOut  []int
	Trailing []string
}

// genSection draws one program.
func genSection(t *rapid.T, name string, rsize int, macros []*macroDef, o genOpts, allowIn bool, movLit int, force *macroDef, base string, vars []dataVar) *sectionSrc {
	g := &secGen{t: t, rsize: rsize, movLit: movLit, base: base, vars: vars, labels: map[string]bool{}, usedIn: map[int]bool{}, usedOut: map[int]bool{}}
	// register file: data registers first, loop counters last
	switch rapid.IntRange(0, 3).Draw(t, "regshape") {
	case 0:
		g.nData, g.ctr = 1, []int{1}
	case 1:
		g.nData, g.ctr = 2, []int{2, 3}
	case 2:
		g.nData, g.ctr = 3, []int{3}
	default:
		g.nData, g.ctr = 2, []int{2}
	}
	var closers []*macroDef
	for _, m := range macros {
		if m.Outer != "" {
			g.labels[m.Outer] = true // reserved: the section defines it only where it uses the macro
		}
		// a macro that moves data to a port gets the section-level/global io mode (its lines carry no
		// line-level metadata): usable only where that is sync
		if m.MaxReg < g.nData && (base == "sync" || !m.UsesOut) {
			switch {
			case m.Outer == "":
				g.macros = append(g.macros, m)
			case m.Closer:
				closers = append(closers, m)
			default:
				g.skippers = append(g.skippers, m)
			}
		}
	}
	if allowIn {
		g.maxIn = rapid.IntRange(0, 2).Draw(t, "maxin")
	}
	g.maxOut = rapid.IntRange(1, 2).Draw(t, "maxout")
	g.explicit = rapid.Bool().Draw(t, "explicit")
	g.budget = rapid.IntRange(2, 7).Draw(t, "budget")

	entryFirst := true
	switch o.Entry {
	case 1:
		entryFirst = false
	case 2:
		entryFirst = rapid.IntRange(0, 59).Draw(t, "entryfirst") != 23 // rapid favours the ends of a range
	}
	entry := g.site()
	if !entryFirst {
		// code in front of the entry point: it falls through into the program, so an execution
		// that starts at address 0 instead of the entry is visible on the outputs
		for i, n := 0, rapid.IntRange(0, 2).Draw(t, "npre"); i < n; i++ {
			g.alu(false)
		}
		g.emit()
	}
	g.place(entry)
	// prologue: initialise the data registers
	for r := 0; r < g.nData; r++ {
		if rapid.IntRange(0, 3).Draw(t, "init") != 0 {
			v := drawValue(t, rsize, "init")
			g.ins(g.litOp(v), fmt.Sprintf("r%d", r), literal(t, v, rsize))
		}
	}
	forever := rapid.IntRange(0, 9).Draw(t, "forever") < 7 || force != nil
	// closer: the jump that closes the main loop comes from a macro (`%macro again 0 / … / j loop / %endmacro`)
	var closer *macroDef
	if len(closers) > 0 && force == nil && uni(t, 8, "useclosers") != 0 {
		forever = true
		closer = closers[uni(t, len(closers), "closer")]
	}
	if len(g.vars) > 0 && uni(t, 3, "romprologue") == 0 {
		g.romRead(true) // once, before the main loop
	}
	var top []string
	if forever {
		top = g.site()
		if closer != nil {
			top[uni(t, len(top), "closerlabel")] = closer.Outer
		}
		g.place(top)
	}
	if len(g.vars) > 0 && uni(t, 4, "romfirst") != 0 {
		g.romRead(true)
	}
	if g.maxIn > 0 && rapid.IntRange(0, 3).Draw(t, "readfirst") != 0 {
		g.input() // a program that has inputs reads one early, so that bonds between CPs carry values
	}
	n := rapid.IntRange(1, 3).Draw(t, "toplen")
	streamAt := rapid.IntRange(0, n-1).Draw(t, "streamat")
	for i := 0; i < n; i++ {
		if i == streamAt {
			if forever && rapid.Bool().Draw(t, "plainemit") {
				g.emit()
			} else {
				g.loop(0, true, 3)
			}
			continue
		}
		g.segment(0)
	}
	if force != nil {
		g.alu(false)
		g.useMacro(force)
	}
	if closer != nil {
		g.useMacro(closer)
	} else if forever {
		g.jump(g.pick(top))
	} else {
		idle := g.site()
		g.place(idle)
		g.jump(g.pick(idle))
	}
	s := &sectionSrc{Name: name}
	if rapid.IntRange(0, 5).Draw(t, "trailing") == 0 {
		s.Trailing = []string{g.newLabel()}
	}
	// macro shape constraints of the main domain (see DESIGN §C05 "Macros"): a use is not
	// directly labelled, two uses are not on consecutive lines, a macro with inner labels is
	// used once per section.
	if !o.OddMacros || rapid.IntRange(0, 2).Draw(t, "tidy") == 0 {
		g.items = tidyMacroUses(g.items, macros)
	}
	// the entry directive: first line of the section (every example in the repository), sometimes elsewhere
	ent := srcItem{Kind: kEntry, Name: g.pick(entry)}
	pos := 0
	if rapid.IntRange(0, 5).Draw(t, "entrypos") == 0 {
		var cand []int
		for i := 0; i <= len(g.items); i++ {
			if i > 0 && g.items[i-1].Kind == kLabel && !o.OddMacros {
				continue // a label directly before the directive would be attached to the directive
			}
			if i < len(g.items) && g.items[i].Atom {
				continue
			}
			if i > 0 && g.items[i-1].Meta != "" {
				continue // line-level metadata would be applied to the directive instead of the move
			}
			cand = append(cand, i)
		}
		pos = rapid.SampledFrom(cand).Draw(t, "entryat")
	}
	items := append([]srcItem(nil), g.items[:pos]...)
	items = append(items, ent)
	items = append(items, g.items[pos:]...)
	s.Items = items
	s.UsedIn, s.UsedOut = scanPorts(items, macros)
	sort.Ints(s.UsedIn)
	sort.Ints(s.UsedOut)
	return s
}

// scanPorts lists the input and output ports the code names (dead code and macro bodies included:
// the assembler sizes the processor from the text, not from what is executed).
func scanPorts(items []srcItem, macros []*macroDef) (ins, outs []int) {
	byName := map[string]*macroDef{}
	for _, m := range macros {
		byName[m.Name] = m
	}
	in, out := map[int]bool{}, map[int]bool{}
	var walk func(items []srcItem, depth int)
	walk = func(items []srcItem, depth int) {
		for _, it := range items {
			switch it.Kind {
			case kUse:
				if m := byName[it.Name]; m != nil && depth < maxMacroDepth {
					walk(m.Items, depth+1)
				}
			case kInstr:
				for _, a := range it.Args {
					if k, ok := parsePort(a, 'i'); ok {
						in[k] = true
					}
					if k, ok := parsePort(a, 'o'); ok {
						out[k] = true
					}
				}
			}
		}
	}
	walk(items, 0)
	for k := range in {
		ins = append(ins, k)
	}
	for k := range out {
		outs = append(outs, k)
	}
	return
}

func tidyMacroUses(items []srcItem, macros []*macroDef) []srcItem {
	byName := map[string]*macroDef{}
	for _, m := range macros {
		byName[m.Name] = m
	}
	var out []srcItem
	seenInner := map[string]bool{}
	prevUse := false
	for _, it := range items {
		if it.Kind == kUse {
			m := byName[it.Name]
			if m != nil && m.InnerLabel {
				if seenInner[it.Name] {
					out = append(out, srcItem{Kind: kInstr, Op: "nop"})
					prevUse = false
					continue
				}
				seenInner[it.Name] = true
			}
			if prevUse || (len(out) > 0 && out[len(out)-1].Kind == kLabel) {
				out = append(out, srcItem{Kind: kInstr, Op: "nop"})
			}
			out = append(out, it)
			prevUse = true
			continue
		}
		if it.Kind == kInstr || it.Kind == kEntry {
			prevUse = false
		}
		out = append(out, it)
	}
	return out
}

// genOuterMacros draws 1..2 macros whose body jumps to a label of the section that uses them.
func genOuterMacros(t *rapid.T, rsize int, movLit int) []*macroDef {
	names := []string{"again", "untilz", "close_1", "skipz", "Next"}
	outer := []string{"loop", "reload", "mtop", "out_1", "Lm"}
	n := 1 + uni(t, 2, "noutermacros")
	off := uni(t, len(names), "outername")
	var ms []*macroDef
	for i := 0; i < n; i++ {
		m := &macroDef{Name: names[(off+i)%len(names)], Outer: outer[(off+2*i+uni(t, 2, "outerlabel"))%len(outer)]}
		for _, o := range ms {
			if o.Outer == m.Outer {
				m.Outer += "_b"
			}
		}
		// the first one closes loops three times out of four, a second one is of the other kind
		m.Closer = uni(t, 4, "closerkind") != 0
		if i > 0 {
			m.Closer = !ms[0].Closer
		}
		g := &secGen{t: t, rsize: rsize, movLit: movLit, base: "sync", noLine: true, labels: map[string]bool{}, usedIn: map[int]bool{}, usedOut: map[int]bool{}, maxOut: 1}
		g.nData = 1 + uni(t, 2, "mregs")
		m.MaxReg = g.nData - 1
		g.explicit = rapid.Bool().Draw(t, "mexplicit")
		for k, nk := 0, uni(t, 3, "outerpre"); k < nk; k++ {
			g.alu(false)
		}
		if m.Closer {
			g.jump(m.Outer)
		} else {
			g.ins("jz", g.dreg("rz"), m.Outer)
			for k, nk := 0, uni(t, 2, "outerpost"); k < nk; k++ {
				g.alu(false)
			}
		}
		m.Items = g.items
		ms = append(ms, m)
	}
	return ms
}

func genMacros(t *rapid.T, rsize int, o genOpts, movLit int) []*macroDef {
	n := rapid.IntRange(0, 3).Draw(t, "nmacros")
	names := []string{"emit", "step", "bump", "M_1", "twice", "setup"}
	var ms []*macroDef
	for i := 0; i < n; i++ {
		m := &macroDef{Name: names[(i*2+rapid.IntRange(0, 1).Draw(t, "mname"))%len(names)]}
		g := &secGen{t: t, rsize: rsize, movLit: movLit, base: "sync", noLine: true, labels: map[string]bool{}, usedIn: map[int]bool{}, usedOut: map[int]bool{}, maxOut: 1}
		g.nData = rapid.IntRange(1, 2).Draw(t, "mregs")
		m.MaxReg = g.nData - 1
		g.explicit = rapid.Bool().Draw(t, "mexplicit")
		if o.OddMacros && rapid.IntRange(0, 7).Draw(t, "emptymacro") == 0 {
			ms = append(ms, m)
			continue
		}
		for k, nk := 0, rapid.IntRange(1, 3).Draw(t, "mlen"); k < nk; k++ {
			switch rapid.IntRange(0, 5).Draw(t, "mkind") {
			case 0:
				g.emit()
				m.UsesOut = true
			case 1:
				// inner forward skip: a label that lives inside the macro
				l := []string{fmt.Sprintf("%s_in%d", m.Name, k)}
				g.ins("jz", g.dreg("rz"), l[0])
				g.alu(false)
				g.place(l)
				g.alu(false)
				m.InnerLabel = true
			case 2:
				if o.OddMacros && len(ms) > 0 {
					inner := rapid.SampledFrom(ms).Draw(t, "inner")
					if inner.MaxReg <= m.MaxReg {
						g.items = append(g.items, srcItem{Kind: kUse, Name: inner.Name})
						m.Nested = true
						m.InnerLabel = m.InnerLabel || inner.InnerLabel
						m.UsesOut = m.UsesOut || inner.UsesOut
						continue
					}
				}
				g.alu(false)
			default:
				g.alu(false)
			}
		}
		m.Items = g.items
		ms = append(ms, m)
	}
	return ms
}

// ---------------------------------------------------------------------------
// rendering with layout noise

type renderer struct {
	t  *rapid.T
	b  strings.Builder
	nl string
}

var commentTexts = []string{"", " loop", " entry start", "%section x .romtext", " a: b, c", " j loop ; nested", "\tr0 = 5", " 0x10", " %meta cpdef z romcode: q"}

func (r *renderer) ws(min int) string {
	n := rapid.IntRange(min, min+2).Draw(r.t, "ws")
	var s strings.Builder
	for i := 0; i < n; i++ {
		if rapid.Bool().Draw(r.t, "tab") {
			s.WriteByte('\t')
		} else {
			s.WriteByte(' ')
		}
	}
	return s.String()
}

func (r *renderer) eol() {
	if rapid.IntRange(0, 5).Draw(r.t, "trailcomment") == 0 {
		r.b.WriteString(r.ws(0) + ";" + rapid.SampledFrom(commentTexts).Draw(r.t, "comment"))
	} else if rapid.IntRange(0, 7).Draw(r.t, "trailws") == 0 {
		r.b.WriteString(r.ws(1))
	}
	r.b.WriteString(r.nl)
	switch rapid.IntRange(0, 11).Draw(r.t, "filler") {
	case 0:
		r.b.WriteString(r.nl)
	case 1:
		r.b.WriteString(r.ws(0) + ";" + rapid.SampledFrom(commentTexts).Draw(r.t, "comment") + r.nl)
	case 2:
		r.b.WriteString(r.ws(1) + r.nl)
	}
}

func (r *renderer) line(s string) {
	r.b.WriteString(s)
	r.eol()
}

func (r *renderer) items(items []srcItem) {
	for _, it := range items {
		switch it.Kind {
		case kLabel:
			l := r.ws(0) + it.Name + ":"
			if it.Meta != "" {
				kv := strings.SplitN(it.Meta, ":", 2)
				l += r.ws(1) + kv[0] + ":" + r.ws(0) + kv[1]
			}
			r.line(l)
		case kEntry:
			r.line(r.ws(0) + "entry" + r.ws(1) + it.Name)
		case kUse:
			r.line(r.ws(0) + it.Name)
		case kInstr:
			s := r.ws(0) + it.Op
			for i, a := range it.Args {
				if i == 0 {
					s += r.ws(1)
				} else {
					s += r.ws(0) + "," + r.ws(0)
				}
				s += a
			}
			r.line(s)
		}
	}
}

func sep(t *rapid.T) string {
	if rapid.Bool().Draw(t, "septab") {
		return "\t"
	}
	return " "
}

type cpSrc struct {
	Name    string
	Section *sectionSrc
	Data    *dataSrc
}

func usesRom(items []srcItem) bool {
	for _, it := range items {
		for _, a := range it.Args {
			if strings.HasPrefix(a, "rom:") {
				return true
			}
		}
	}
	return false
}

func loadsImmediate(items []srcItem) bool {
	for _, it := range items {
		if it.Kind == kInstr && len(it.Args) == 2 && (it.Op == "rset" || (it.Op == "mov" && it.Args[1] != "" && it.Args[1][0] >= '0' && it.Args[1][0] <= '9')) {
			return true
		}
	}
	return false
}

// byteExpr writes one byte of a data section. The notations say how wide the number is (one byte); where
// unsized is set (one source with data in forty) one expression in four is a plain or 0d/0u decimal, which the
// assembler stores as 8 cells (counted as excluded).
func byteExpr(t *rapid.T, v uint64, unsized bool) string {
	if unsized && uni(t, 4, "unsizedbyte") == 0 {
		return fmt.Sprintf("%s%d", rapid.SampledFrom([]string{"", "0d", "0u"}).Draw(t, "unsized"), v)
	}
	switch uni(t, 60, "bytenotation") {
	case 0:
		return fmt.Sprintf("0x%X", v)
	case 1, 2, 3, 4, 5, 6, 7, 8:
		return fmt.Sprintf("0b%b", v)
	case 9, 10, 11, 12:
		return fmt.Sprintf("0b<8>%b", v)
	case 13, 14, 15, 16:
		return fmt.Sprintf("0x<8>%x", v)
	case 17, 18, 19, 20, 21, 22, 23, 24:
		return fmt.Sprintf("0x%x", v)
	case 25, 26, 27, 28, 29, 30, 31, 32:
		return fmt.Sprintf("0x%02X", v)
	}
	return fmt.Sprintf("0x%02x", v)
}

// genDatas draws 1..3 data sections. Each declares every symbol of vars with at least its Min cells; order,
// padding symbols, lengths and values are free, or (one time in three) copied in shape from the first section.
func genDatas(t *rapid.T, vars []dataVar) []*dataSrc {
	names := []string{"vars", "dvals", "tbl_a", "consts", "D2", "kdata"}
	pads := []string{"pad", "fill_0", "_gap", "Z9"}
	n := 1 + uni(t, 3, "ndatas")
	off := uni(t, len(names), "dataname")
	unsized := uni(t, 40, "unsizedbytes") == 0
	val := func() uint64 {
		switch uni(t, 4, "byteclass") {
		case 0:
			return uint64(uni(t, 4, "bytelow"))
		case 1:
			return 255 - uint64(uni(t, 4, "bytehigh"))
		}
		return uint64(uni(t, 256, "byte"))
	}
	var ds []*dataSrc
	for i := 0; i < n; i++ {
		d := &dataSrc{Name: names[(off+i)%len(names)]}
		if i > 0 && uni(t, 3, "sameshape") == 0 {
			for _, l := range ds[0].Lines {
				nl := dataLine{Name: l.Name}
				for range l.Exprs {
					nl.Exprs = append(nl.Exprs, byteExpr(t, val(), unsized))
				}
				d.Lines = append(d.Lines, nl)
			}
			ds = append(ds, d)
			continue
		}
		order := rapid.Permutation(seqInts(len(vars))).Draw(t, "varorder")
		np := 0
		for _, vi := range order {
			if np < len(pads) && uni(t, 4, "padbefore") == 0 {
				l := dataLine{Name: pads[np]}
				np++
				for k, nk := 0, 1+uni(t, 4, "padlen"); k < nk; k++ {
					if uni(t, 3, "padstring") == 0 {
						// a string: one cell per character (a comma or a blank inside it is a character)
						l.Exprs = append(l.Exprs, `"`+rapid.SampledFrom([]string{"A", "AB", "ok", "A,B", "a b", "x1", "0x00", "7"}).Draw(t, "str")+`"`)
						continue
					}
					l.Exprs = append(l.Exprs, byteExpr(t, val(), unsized))
				}
				d.Lines = append(d.Lines, l)
			}
			l := dataLine{Name: vars[vi].Name}
			cells := vars[vi].Min
			if uni(t, 3, "extracells") == 0 {
				cells += 1 + uni(t, 2, "nextra")
			}
			for k := 0; k < cells; k++ {
				l.Exprs = append(l.Exprs, byteExpr(t, val(), unsized))
			}
			d.Lines = append(d.Lines, l)
		}
		ds = append(ds, d)
	}
	return ds
}

// genSource draws a whole source file and its environment.
func genSource(o genOpts) func(t *rapid.T) Case {
	return func(t *rapid.T) Case {
		var c Case
		rsize := rapid.SampledFrom([]int{8, 16, 32, 64}).Draw(t, "rsize")
		// assembler configuration and what it means for `mov <reg>, <literal>` (see asm.go and the
		// findings in the package comment of c05_test.go)
		c.Cfg = rapid.SampledFrom([]string{cfgNoDyn, cfgNoDyn, cfgNoDyn, cfgDefault, cfgMinWord, cfgMinSame}).Draw(t, "cfg")
		movLit := 2
		switch c.Cfg {
		case cfgDefault:
			movLit = 0
			if rapid.IntRange(0, 19).Draw(t, "movlit_default") == 7 {
				movLit = 2 // refused: "a criteria is needed" (counted)
			}
		}
		macros := genMacros(t, rsize, o, movLit)
		// two families of shapes on top of the common grammar (the known-defect campaigns keep the plain one):
		// data — romdata sections, CPs that run one text on the same or on different data; outer — macros that
		// jump to a label of the section using them, used by one or several sections
		dataMode, outerMode := false, false
		if !o.Leak && o.Entry != 1 {
			switch uni(t, 12, "family") {
			case 7, 8:
				dataMode = true
			case 9, 10:
				outerMode = true
			case 11:
				dataMode, outerMode = true, true
			}
		}
		if outerMode {
			macros = append(macros, genOuterMacros(t, rsize, movLit)...)
		}
		var vars []dataVar
		if dataMode {
			names := rapid.Permutation([]string{"k", "m", "tab", "coef", "x0", "lut", "seed_1", "Kc"}).Draw(t, "varnames")
			for i, n := 0, 1+uni(t, 3, "nvars"); i < n; i++ {
				vars = append(vars, dataVar{Name: names[i], Min: 1 + uni(t, 3, "varmin")})
			}
		}
		var force *macroDef
		if o.Leak {
			g := &secGen{t: t, rsize: rsize, movLit: movLit, base: "sync", noLine: true, nData: 1, maxOut: 1, labels: map[string]bool{}, usedIn: map[int]bool{}, usedOut: map[int]bool{}}
			g.alu(false)
			g.emit() // explicit is false: written as mov o0, r0
			force = &macroDef{Name: "send", Items: g.items, UsesOut: true}
			macros = append(macros, force)
		}
		maxCPs := o.MaxCPs
		if maxCPs == 0 {
			maxCPs = 3
		}
		nCP := rapid.IntRange(1, maxCPs).Draw(t, "ncps")
		nSec := rapid.IntRange(1, 3).Draw(t, "nsecs")
		if nSec > nCP && rapid.IntRange(0, 2).Draw(t, "deadsecs") != 0 {
			nSec = nCP // sections nobody runs are the minority (they cost assembler time and are not observed)
		}
		if o.Leak {
			nSec = 2
		}
		// the new families are about several CPs: one text run by several CPs (data), one macro used by
		// several texts (outer)
		switch {
		case dataMode && maxCPs >= 2 && uni(t, 2, "datashare") == 0:
			if nCP < 2 {
				nCP = 2
			}
			if uni(t, 4, "onetext") != 0 {
				nSec = 1
			}
		case outerMode && maxCPs >= 2 && uni(t, 4, "outerspread") != 0:
			if nSec < 2 {
				nSec = 2
			}
			if nCP < nSec {
				nCP = nSec
			}
		}
		// io mode metadata: at global level (none/sync/async), at section level (none/sync/async, the same as or
		// different from the global one) and, per pseudo-move, at line level. metadatainfer.go resolves line, then
		// section, then global. Sections are generated so that every pseudo-move resolves to sync (sections no
		// CP runs are perturbed below).
		global := rapid.SampledFrom([]string{"sync", "sync", "async", "async", ""}).Draw(t, "globalio")
		if o.Leak {
			global = rapid.SampledFrom([]string{"sync", ""}).Draw(t, "globalio_leak")
		}
		secNames := []string{"code", "main", "prog_b", "S2", "worker", "romA"}
		var secs []*sectionSrc
		// one source in four names its sections N, N_0, N_1: the names the assembler itself derives when it
		// re-emits a section
		derived := nSec > 1 && rapid.IntRange(0, 3).Draw(t, "derivednames") == 0
		derivedBase := rapid.SampledFrom(secNames).Draw(t, "derivedbase")
		for i := 0; i < nSec; i++ {
			name := secNames[(i*2+rapid.IntRange(0, 1).Draw(t, "sname"))%len(secNames)]
			if derived {
				name = derivedBase
				if i > 0 {
					name = fmt.Sprintf("%s_%d", derivedBase, i-1)
				}
			}
			secIO := rapid.SampledFrom([]string{"sync", "sync", "sync", "", "", "async"}).Draw(t, "secio")
			if o.Leak && (secIO == "async" || global == "") {
				secIO = "sync"
			}
			base := secIO
			if base == "" {
				base = global
			}
			s := genSection(t, name, rsize, macros, o, true, movLit, force, base, vars)
			s.IOMode = secIO
			if o.Leak && i == 1 {
				s.IOMode = "async"
			}
			secs = append(secs, s)
		}
		var datas []*dataSrc
		if dataMode {
			datas = genDatas(t, vars)
		}
		cpNames := []string{"cpu0", "cpu1", "cpu2", "main", "p_a", "worker", "X1", "c"}
		var cps []cpSrc
		usedSec := map[int]bool{}
		for i := 0; i < nCP; i++ {
			si := i % nSec // every section gets a CP first; beyond that shared or unused ones appear
			if rapid.IntRange(0, 2).Draw(t, "cpsecfree") == 0 && !o.Leak {
				si = rapid.IntRange(0, nSec-1).Draw(t, "cpsec")
			}
			usedSec[si] = true
			var free []string
			for _, n := range cpNames {
				taken := false
				for _, o := range cps {
					if o.Name == n {
						taken = true
					}
				}
				if !taken {
					free = append(free, n)
				}
			}
			name := rapid.SampledFrom(free).Draw(t, "cpname")
			cp := cpSrc{Name: name, Section: secs[si]}
			// (data the text does not use: only where the text loads an immediate, so that the ROM word holds a byte)
			if len(datas) > 0 && (usesRom(secs[si].Items) || (loadsImmediate(secs[si].Items) && uni(t, 2, "dataunused") == 0)) {
				// CPs that run the same text mostly get data sections of their own
				var fresh []*dataSrc
				for _, d := range datas {
					taken := false
					for _, o := range cps {
						if o.Section == secs[si] && o.Data == d {
							taken = true
						}
					}
					if !taken {
						fresh = append(fresh, d)
					}
				}
				if len(fresh) > 0 && uni(t, 4, "owndata") != 0 {
					cp.Data = fresh[uni(t, len(fresh), "cpdata")]
				} else {
					cp.Data = datas[uni(t, len(datas), "cpdata")]
				}
			}
			cps = append(cps, cp)
		}
		// a section no CP runs may be anything the assembler accepts: give it the other io mode now and then
		for i, s := range secs {
			if usedSec[i] {
				continue
			}
			if rapid.IntRange(0, 2).Draw(t, "deadasync") == 0 {
				s.IOMode = "async"
			}
			for k := range s.Items {
				if s.Items[k].Meta != "" && rapid.IntRange(0, 2).Draw(t, "deadlineasync") == 0 {
					s.Items[k].Meta = "iomode:async"
				}
			}
		}
		// wiring: fan-out 1. Every used output of a CP goes to one sink (an unfed input of a later CP,
		// else a machine output); every input left is fed by a machine input.
		type att struct {
			name, cp, typ string
			idx           int
		}
		var atts [][2]att
		fed := make([]map[int]bool, nCP)
		for i := range fed {
			fed[i] = map[int]bool{}
		}
		nOut, nIn := 0, 0
		bond := 0
		for a := 0; a < nCP; a++ {
			for _, op := range cps[a].Section.UsedOut {
				linked := false
				if a+1 < nCP && rapid.IntRange(0, 4).Draw(t, "link") != 0 {
					// candidate sinks in later CPs
					type cand struct{ cp, port int }
					var cs []cand
					for b := a + 1; b < nCP; b++ {
						for _, ip := range cps[b].Section.UsedIn {
							if !fed[b][ip] {
								cs = append(cs, cand{b, ip})
							}
						}
					}
					if len(cs) > 0 {
						k := cs[rapid.IntRange(0, len(cs)-1).Draw(t, "sink")]
						fed[k.cp][k.port] = true
						n := fmt.Sprintf("lnk%d", bond)
						bond++
						atts = append(atts, [2]att{{n, cps[a].Name, "output", op}, {n, cps[k.cp].Name, "input", k.port}})
						linked = true
					}
				}
				if !linked {
					n := fmt.Sprintf("out%d", bond)
					bond++
					atts = append(atts, [2]att{{n, cps[a].Name, "output", op}, {n, "bm", "output", nOut}})
					nOut++
				}
			}
		}
		for b := 0; b < nCP; b++ {
			for _, ip := range cps[b].Section.UsedIn {
				if fed[b][ip] {
					continue
				}
				n := fmt.Sprintf("in%d", bond)
				bond++
				atts = append(atts, [2]att{{n, cps[b].Name, "input", ip}, {n, "bm", "input", nIn}})
				nIn++
			}
		}
		// environment
		for i := 0; i < nIn; i++ {
			var st []uint64
			for k, n := 0, rapid.IntRange(4, 12).Draw(t, "nin"); k < n; k++ {
				st = append(st, drawValue(t, rsize, "inval"))
			}
			c.In = append(c.In, st)
			c.InGap = append(c.InGap, rapid.IntRange(0, 3).Draw(t, "gap"))
		}
		for i := 0; i < nOut; i++ {
			c.OutStall = append(c.OutStall, rapid.IntRange(0, 3).Draw(t, "stall"))
		}
		c.Ticks = rapid.IntRange(150, 500).Draw(t, "ticks")

		// ---- text
		r := &renderer{t: t, nl: "\n"}
		if rapid.IntRange(0, 9).Draw(t, "crlf") == 0 {
			r.nl = "\r\n"
		}
		type chunk func()
		var metaChunks, blockChunks []chunk
		for _, m := range macros {
			m := m
			blockChunks = append(blockChunks, func() {
				r.line("%macro" + sep(t) + m.Name + sep(t) + "0")
				r.items(m.Items)
				r.line("%endmacro")
			})
		}
		for _, s := range secs {
			s := s
			blockChunks = append(blockChunks, func() {
				h := "%section" + sep(t) + s.Name + sep(t) + ".romtext"
				if s.IOMode != "" {
					h += sep(t) + "iomode:" + s.IOMode
				}
				r.line(h)
				r.items(s.Items)
				for _, l := range s.Trailing {
					r.line(r.ws(0) + l + ":")
				}
				r.line("%endsection")
			})
		}
		for _, d := range datas {
			d := d
			blockChunks = append(blockChunks, func() {
				r.line("%section" + sep(t) + d.Name + sep(t) + ".romdata")
				for _, l := range d.Lines {
					r.line(r.ws(0) + l.Name + r.ws(1) + "db" + r.ws(1) + strings.Join(l.Exprs, r.ws(0)+","+r.ws(0)))
				}
				r.line("%endsection")
			})
		}
		for _, cp := range cps {
			cp := cp
			metaChunks = append(metaChunks, func() {
				kv := []string{"romcode:" + r.ws(0) + cp.Section.Name}
				if cp.Data != nil {
					kv = append(kv, "romdata:"+r.ws(0)+cp.Data.Name)
					if rapid.Bool().Draw(t, "cpdeforder") {
						kv[0], kv[1] = kv[1], kv[0]
					}
				}
				if rapid.IntRange(0, 3).Draw(t, "execmode") == 0 {
					kv = append(kv, "execmode:"+r.ws(0)+"ha")
				}
				r.line("%meta" + r.ws(1) + "cpdef" + r.ws(1) + cp.Name + r.ws(1) + strings.Join(kv, r.ws(0)+","+r.ws(0)))
			})
		}
		attLine := func(a att) string {
			kv := []string{"cp:" + r.ws(0) + a.cp, "index:" + r.ws(0) + fmt.Sprint(a.idx), "type:" + r.ws(0) + a.typ}
			kv = rapid.Permutation(kv).Draw(t, "attorder")
			return "%meta" + r.ws(1) + "ioatt" + r.ws(1) + a.name + r.ws(1) + strings.Join(kv, r.ws(0)+","+r.ws(0))
		}
		for _, p := range atts {
			p := p
			if rapid.Bool().Draw(t, "attswap") {
				p[0], p[1] = p[1], p[0]
			}
			metaChunks = append(metaChunks, func() {
				r.line(attLine(p[0]))
				r.line(attLine(p[1]))
			})
		}
		metaChunks = append(metaChunks, func() {
			kv := []string{fmt.Sprintf("registersize:%s%d", r.ws(0), rsize)}
			if global != "" {
				kv = append(kv, "iomode:"+r.ws(0)+global)
				kv = rapid.Permutation(kv).Draw(t, "bmdeforder")
			}
			r.line("%meta" + r.ws(1) + "bmdef" + r.ws(1) + "global" + r.ws(1) + strings.Join(kv, r.ws(0)+","+r.ws(0)))
		})
		// blocks keep their relative order only by accident: a macro may be defined after its use
		blockChunks = rapid.Permutation(blockChunks).Draw(t, "blockorder")
		// the cpdef lines keep their order (it numbers the processors), the other %meta lines float
		var all []chunk
		switch rapid.IntRange(0, 2).Draw(t, "metaplace") {
		case 0:
			all = append(append(all, blockChunks...), metaChunks...)
		case 1:
			all = append(append(all, metaChunks...), blockChunks...)
		default:
			// interleave, both orders preserved
			i, j := 0, 0
			for i < len(blockChunks) || j < len(metaChunks) {
				if j >= len(metaChunks) || (i < len(blockChunks) && rapid.Bool().Draw(t, "interleave")) {
					all = append(all, blockChunks[i])
					i++
				} else {
					all = append(all, metaChunks[j])
					j++
				}
			}
		}
		if rapid.IntRange(0, 3).Draw(t, "leadcomment") == 0 {
			r.b.WriteString(";" + rapid.SampledFrom(commentTexts).Draw(t, "comment") + r.nl)
		}
		for _, f := range all {
			f()
		}
		c.Src = r.b.String()
		if rapid.IntRange(0, 5).Draw(t, "noeol") == 0 {
			c.Src = strings.TrimRight(c.Src, "\r\n")
		}
		return c
	}
}

// genLabelLeak draws the shape of the label-leak defect (see the exclusion in evalCase).
func genLabelLeak(t *rapid.T) Case {
	var c Case
	rsize := rapid.SampledFrom([]int{8, 16, 32, 64}).Draw(t, "rsize")
	c.Cfg = cfgNoDyn
	mk := func() *secGen {
		return &secGen{t: t, rsize: rsize, movLit: 2, base: "sync", noLine: true, nData: 2, maxOut: 1, labels: map[string]bool{}, usedIn: map[int]bool{}, usedOut: map[int]bool{}}
	}
	x := rapid.SampledFrom([]string{"again", "X", "lbl_3", "back"}).Draw(t, "leaked")
	r := &renderer{t: t, nl: "\n"}
	// the section whose last line is the label
	first := mk()
	first.ins("nop")
	first.place([]string{"s0"})
	first.alu(false)
	first.jump("s0")
	r.line("%section first .romtext iomode:sync")
	r.line("\tentry s0")
	r.items(first.items)
	r.line(x + ":")
	r.line("%endsection")
	// the next block of the file: macro M, with an output of its own
	m := mk()
	m.alu(false)
	m.emit()
	r.line("%macro M 0")
	r.items(m.items)
	r.line("%endmacro")
	n := mk()
	n.alu(false)
	r.line("%macro N 0")
	r.items(n.items)
	r.line("%endmacro")
	live := mk()
	live.place([]string{"e"})
	live.ins("rset", "r0", literal(t, drawValue(t, rsize, "k0"), rsize))
	live.ins("rset", "r1", literal(t, drawValue(t, rsize, "k1"), rsize))
	live.ins("rset", "r2", literal(t, uint64(rapid.IntRange(3, 5).Draw(t, "iters")), rsize))
	live.place([]string{x})
	live.items = append(live.items, srcItem{Kind: kUse, Name: "N"})
	live.emit()
	live.ins("inc", "r0")
	live.items = append(live.items, srcItem{Kind: kUse, Name: "M"})
	live.ins("dec", "r2")
	live.ins("jz", "r2", "done")
	live.jump(x)
	live.place([]string{"done"})
	live.jump("done")
	r.line("%section live .romtext iomode:sync")
	r.line("\tentry e")
	r.items(live.items)
	r.line("%endsection")
	r.line("%meta cpdef cpu romcode: live")
	r.line("%meta ioatt out0 cp: cpu, index:0, type:output")
	r.line("%meta ioatt out0 cp: bm, index:0, type:output")
	r.line(fmt.Sprintf("%%meta bmdef global registersize:%d", rsize))
	c.Src = r.b.String()
	c.OutStall = []int{rapid.IntRange(0, 3).Draw(t, "stall")}
	c.Ticks = rapid.IntRange(150, 300).Draw(t, "ticks")
	return c
}

// genDbUnsized: the documentation's own example of `db` (plain decimal numbers), read back cell by cell.
func genDbUnsized(t *rapid.T) Case {
	var c Case
	rsize := rapid.SampledFrom([]int{8, 16, 32, 64}).Draw(t, "rsize")
	c.Cfg = cfgNoDyn
	var vals []string
	for i, n := 0, rapid.IntRange(2, 4).Draw(t, "nvals"); i < n; i++ {
		vals = append(vals, fmt.Sprint(rapid.IntRange(1, 255).Draw(t, "v")))
	}
	var b strings.Builder
	b.WriteString("%section data .romdata\n\tf db " + strings.Join(vals, ", ") + "\n%endsection\n")
	b.WriteString("%section code .romtext iomode:sync\n\tentry start\nstart:\n\trset r2, 1\n\tmov r0, rom:f\n") // (an immediate load keeps the ROM word at least as wide as a register)
	for range vals {
		b.WriteString("\tmov r1, rom:[r0]\n\tmov o0, r1\n\tnop\n\tnop\n\tnop\n\tinc r0\n")
	}
	b.WriteString("done:\n\tj done\n%endsection\n")
	b.WriteString("%meta cpdef cpu romcode: code, romdata: data\n%meta ioatt out0 cp: cpu, index:0, type:output\n%meta ioatt out0 cp: bm, index:0, type:output\n")
	b.WriteString(fmt.Sprintf("%%meta bmdef global registersize:%d\n", rsize))
	c.Src = b.String()
	c.OutStall = []int{rapid.IntRange(0, 2).Draw(t, "stall")}
	c.Ticks = 40 + 12*len(vals)
	return c
}
