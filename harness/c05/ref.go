package c05

// ref.go: reference interpreter of the SOURCE TEXT of a .basm program.
//
// It never calls /repo's assembler, number importer or simulator. It implements the meaning
// the property statement gives to a source:
//
//   - a label denotes the instruction that follows it (in its own section, after the macros
//     were expanded textually; the `entry` directive is not an instruction);
//   - execution of a CP starts at the instruction named by the `entry <label>` directive of
//     the section its `%meta cpdef <cp> romcode:<section>` names;
//   - `%macro name 0 … %endmacro` is replaced textually at every use (recursively);
//   - mov is a pseudo-instruction: mov rX,<literal> = rset, mov rX,rY = cpy,
//     mov rX,iK = i2rw and mov oK,rX = r2owa when the io mode of the line is sync; jmp = j, noop = nop;
//   - the io mode of a line is, in this order of precedence (README: iomode is "the default I/O mode for the
//     section"; metadatainfer.go implements line, then section, then global, the same for inputs and outputs):
//     1. line-level metadata `iomode:<sync|async>` written after a label (`lbl: iomode:sync`), which the line
//     parser applies to the next instruction line; 2. the `iomode:` metadata of the %section line; 3. `%meta
//     bmdef global iomode:`. A value other than sync/async at one level counts as absent at that level;
//   - literals: decimal, 0d, 0u (optionally `.0…`), 0x, 0b, and the sized forms 0x<n>, 0b<n>, 0u<n>, 0d<n>;
//   - registers wrap at `%meta bmdef global registersize`;
//   - `%section <name> .romdata` declares data (docinstructions.md "Declaring data"): every line is
//     `<symbol> db <expression>[, <expression>]…`, every expression is one byte, the bytes of a section are laid
//     out in the order written. `%meta cpdef <cp> romcode:<text>, romdata:<data>` gives the CP a ROM made of the
//     instructions of <text> followed by the bytes of <data> (one ROM cell each). `mov rX, rom:<symbol>` loads the
//     ROM address of the first byte of <symbol> in the data section of THAT CP, `mov rY, rom:[rX]` reads the ROM
//     cell whose address is in rX. Only cells of the data part are read by generated programs (a cell of the code
//     part holds an instruction word, whose encoding the source does not define);
//   - `%meta ioatt <name> cp:<cp|bm>, index:<k>, type:<input|output>` pairs make streams:
//     i2rw blocks until a value is available, r2owa appends to the stream (Kahn network: the
//     value sequence on every stream does not depend on timing, so it is compared prefix-wise
//     with whatever the simulated machine delivered).

import (
	"fmt"
	"math/bits"
	"sort"
	"strconv"
	"strings"
)

const (
	itLabel = iota
	itInstr
	itEntry
)

type refItem struct {
	Kind   int
	Name   string   // label name, or entry target
	Op     string   // instruction mnemonic
	Args   []string // operands
	Line   int      // 1-based source line
	Depth  int      // macro nesting depth that produced the item (0 = written in the section)
	Macro  string   // innermost macro whose body holds the line ("" = written in the section)
	LineIO string   // line-level iomode metadata ("" = none)
}

type refSection struct {
	Name   string
	IOMode string
	Items  []refItem
}

// refVar is one declared symbol of a data section; refData the section (Cells = its bytes in source order).
type refVar struct {
	Name  string
	Off   int
	Bytes []uint64
	Line  int
}

type refData struct {
	Name  string
	Vars  []refVar
	Cells []uint64
}

func (d *refData) lookup(name string) *refVar {
	for i := range d.Vars {
		if d.Vars[i].Name == name {
			return &d.Vars[i]
		}
	}
	return nil
}

type refMacro struct {
	Name  string
	NArgs int
	Items []refItem
	Line  int
}

type refCP struct {
	Name    string
	RomCode string
	RomData string
}

type refAtt struct {
	Name  string
	CP    string
	Type  string
	Index int
}

type refSource struct {
	Sections  map[string]*refSection
	SecOrder  []string
	Datas     map[string]*refData
	DataOrder []string
	Macros    map[string]*refMacro
	CPs       []refCP
	Atts      []refAtt
	Rsize     int
	IOMode    string // global
	Feat      map[string]bool
	// label names for the label-leak class (see c05_test.go): labels written after the last line of a block,
	// and labels written directly on a macro use or directly before the entry directive
	Trailing map[string]bool
	Lost     map[string]bool
}

// refUnsupported is returned for text outside the subset the reference gives a meaning to.
type refUnsupported struct{ Why string }

func (e *refUnsupported) Error() string { return "reference: unsupported: " + e.Why }

func unsupported(format string, a ...any) error {
	return &refUnsupported{fmt.Sprintf(format, a...)}
}

func parsePairs(s string) (map[string]string, error) {
	s = strings.Join(strings.Fields(s), "")
	m := map[string]string{}
	if s == "" {
		return m, nil
	}
	for _, p := range strings.Split(s, ",") {
		kv := strings.SplitN(p, ":", 2)
		if len(kv) != 2 || kv[0] == "" {
			return nil, unsupported("metadata pair %q", p)
		}
		m[kv[0]] = kv[1]
	}
	return m, nil
}

func isIdent(s string) bool {
	if s == "" {
		return false
	}
	for i, c := range s {
		switch {
		case c == '_' || (c >= 'a' && c <= 'z') || (c >= 'A' && c <= 'Z'):
		case c >= '0' && c <= '9' && i > 0:
		default:
			return false
		}
	}
	return true
}

// parseSource reads the text.
func parseSource(text string) (*refSource, error) {
	rs := &refSource{Sections: map[string]*refSection{}, Datas: map[string]*refData{}, Macros: map[string]*refMacro{}, Feat: map[string]bool{}, Trailing: map[string]bool{}, Lost: map[string]bool{}}
	var curSec *refSection
	var curMac *refMacro
	var curData *refData
	var pending []refItem // labels waiting for the next line of the current block
	pendingIO := ""       // line-level iomode metadata waiting for the next instruction line
	flushTrailing := func() {
		if len(pending) > 0 {
			rs.Feat["trailing-label"] = true
			for _, l := range pending {
				rs.Trailing[l.Name] = true
			}
			// a label after the last instruction denotes the address past the end; kept as items so
			// that duplicates are seen, never a legal jump target
			if curSec != nil {
				curSec.Items = append(curSec.Items, pending...)
			} else if curMac != nil {
				curMac.Items = append(curMac.Items, pending...)
			}
			pending = nil
		}
		pendingIO = ""
	}
	lines := strings.Split(text, "\n")
	for ln, raw := range lines {
		raw = strings.TrimSuffix(raw, "\r")
		if i := strings.IndexByte(raw, ';'); i >= 0 {
			raw = raw[:i]
		}
		raw = strings.ReplaceAll(raw, "\t", " ")
		line := strings.TrimSpace(raw)
		if line == "" {
			continue
		}
		f := strings.Fields(line)
		switch f[0] {
		case "%macro":
			if curSec != nil || curMac != nil || curData != nil {
				return nil, unsupported("line %d: %%macro inside a block", ln+1)
			}
			if len(f) != 3 || !isIdent(f[1]) {
				return nil, unsupported("line %d: %%macro header", ln+1)
			}
			n, err := strconv.Atoi(f[2])
			if err != nil || n != 0 {
				return nil, unsupported("line %d: macro with parameters", ln+1)
			}
			if _, dup := rs.Macros[f[1]]; dup {
				return nil, unsupported("line %d: macro %s defined twice", ln+1, f[1])
			}
			curMac = &refMacro{Name: f[1], NArgs: n, Line: ln + 1}
			rs.Macros[f[1]] = curMac
		case "%endmacro":
			if curMac == nil {
				return nil, unsupported("line %d: %%endmacro outside a macro", ln+1)
			}
			flushTrailing()
			curMac = nil
		case "%section":
			if curSec != nil || curMac != nil || curData != nil {
				return nil, unsupported("line %d: %%section inside a block", ln+1)
			}
			if len(f) < 3 || !isIdent(f[1]) {
				return nil, unsupported("line %d: %%section header", ln+1)
			}
			if f[2] != ".romtext" && f[2] != ".romdata" {
				return nil, unsupported("line %d: section type %s", ln+1, f[2])
			}
			_, dupD := rs.Datas[f[1]]
			if _, dup := rs.Sections[f[1]]; dup || dupD {
				return nil, unsupported("line %d: section %s defined twice", ln+1, f[1])
			}
			if f[2] == ".romdata" {
				if len(f) > 3 {
					return nil, unsupported("line %d: metadata on a data section", ln+1)
				}
				if len(pending) > 0 {
					return nil, unsupported("line %d: label before a data section", ln+1)
				}
				curData = &refData{Name: f[1]}
				rs.Datas[f[1]] = curData
				rs.DataOrder = append(rs.DataOrder, f[1])
				continue
			}
			meta, err := parsePairs(strings.Join(f[3:], " "))
			if err != nil {
				return nil, err
			}
			curSec = &refSection{Name: f[1]}
			for k, v := range meta {
				switch k {
				case "iomode":
					curSec.IOMode = v
				default:
					return nil, unsupported("line %d: section metadata %s", ln+1, k)
				}
			}
			rs.Sections[f[1]] = curSec
			rs.SecOrder = append(rs.SecOrder, f[1])
		case "%endsection":
			if curData != nil {
				curData = nil
				continue
			}
			if curSec == nil {
				return nil, unsupported("line %d: %%endsection outside a section", ln+1)
			}
			flushTrailing()
			curSec = nil
		case "%meta":
			if len(f) < 4 {
				return nil, unsupported("line %d: %%meta", ln+1)
			}
			meta, err := parsePairs(strings.Join(f[3:], " "))
			if err != nil {
				return nil, err
			}
			switch f[1] {
			case "bmdef":
				if f[2] != "global" {
					return nil, unsupported("line %d: bmdef %s", ln+1, f[2])
				}
				for k, v := range meta {
					switch k {
					case "registersize":
						n, err := strconv.Atoi(v)
						if err != nil {
							return nil, unsupported("line %d: registersize %q", ln+1, v)
						}
						rs.Rsize = n
					case "iomode":
						rs.IOMode = v
					case "defaultexecmode":
						if v != "ha" {
							return nil, unsupported("line %d: execmode %s", ln+1, v)
						}
					default:
						return nil, unsupported("line %d: bmdef key %s", ln+1, k)
					}
				}
			case "cpdef":
				cp := refCP{Name: f[2]}
				for k, v := range meta {
					switch k {
					case "romcode":
						cp.RomCode = v
					case "romdata":
						cp.RomData = v
					case "execmode":
						if v != "ha" {
							return nil, unsupported("line %d: execmode %s", ln+1, v)
						}
					default:
						return nil, unsupported("line %d: cpdef key %s", ln+1, k)
					}
				}
				for _, o := range rs.CPs {
					if o.Name == cp.Name {
						return nil, unsupported("line %d: cp %s defined twice", ln+1, cp.Name)
					}
				}
				rs.CPs = append(rs.CPs, cp)
			case "ioatt":
				a := refAtt{Name: f[2], Index: -1}
				for k, v := range meta {
					switch k {
					case "cp":
						a.CP = v
					case "type":
						a.Type = v
					case "index":
						n, err := strconv.Atoi(v)
						if err != nil || n < 0 {
							return nil, unsupported("line %d: ioatt index %q", ln+1, v)
						}
						a.Index = n
					default:
						return nil, unsupported("line %d: ioatt key %s", ln+1, k)
					}
				}
				if a.CP == "" || a.Index < 0 || (a.Type != "input" && a.Type != "output") {
					return nil, unsupported("line %d: incomplete ioatt", ln+1)
				}
				rs.Atts = append(rs.Atts, a)
			default:
				return nil, unsupported("line %d: %%meta %s", ln+1, f[1])
			}
		default:
			if strings.HasPrefix(f[0], "%") {
				return nil, unsupported("line %d: directive %s", ln+1, f[0])
			}
			if curData != nil {
				if err := rs.dataLine(curData, line, ln+1); err != nil {
					return nil, err
				}
				continue
			}
			if curSec == nil && curMac == nil {
				return nil, unsupported("line %d: code outside a block", ln+1)
			}
			if strings.HasSuffix(f[0], ":") {
				name := strings.TrimSuffix(f[0], ":")
				if !isIdent(name) {
					return nil, unsupported("line %d: label line %q", ln+1, line)
				}
				if len(f) > 1 {
					// line-level metadata: key:value pairs that belong to the next instruction line
					meta, err := parsePairs(strings.Join(f[1:], ""))
					if err != nil {
						return nil, err
					}
					for k, v := range meta {
						if k != "iomode" {
							return nil, unsupported("line %d: line metadata %s", ln+1, k)
						}
						pendingIO = v
					}
				}
				pending = append(pending, refItem{Kind: itLabel, Name: name, Line: ln + 1})
				continue
			}
			op := f[0]
			rest := strings.TrimSpace(line[len(op):])
			var args []string
			if rest != "" {
				for _, a := range strings.Split(rest, ",") {
					args = append(args, strings.TrimSpace(a))
				}
			}
			it := refItem{Kind: itInstr, Op: op, Args: args, Line: ln + 1, LineIO: pendingIO}
			if pendingIO != "" {
				if op == "entry" || rs.Macros[op] != nil {
					return nil, unsupported("line %d: line metadata on a directive or macro use", ln+1)
				}
				rs.Feat["line-level-iomode"] = true
			}
			pendingIO = ""
			if op == "entry" && curSec != nil {
				if len(args) != 1 || !isIdent(args[0]) {
					return nil, unsupported("line %d: entry directive", ln+1)
				}
				it = refItem{Kind: itEntry, Name: args[0], Line: ln + 1}
				if len(pending) > 0 {
					rs.Feat["label-before-entry"] = true
					for _, l := range pending {
						rs.Lost[l.Name] = true
					}
				}
			}
			if curSec != nil {
				curSec.Items = append(append(curSec.Items, pending...), it)
			} else {
				curMac.Items = append(append(curMac.Items, pending...), it)
			}
			pending = nil
		}
	}
	if curSec != nil || curMac != nil || curData != nil {
		return nil, unsupported("block not closed at end of file")
	}
	if rs.Rsize == 0 {
		return nil, unsupported("no registersize")
	}
	return rs, nil
}

// dataLine reads `<symbol> db <expression>[, <expression>]…`. An expression is one byte
// (docinstructions.md: "a constant expression that evaluates to a byte … the assembler assigns the first
// expression to the first byte of the variable, the second expression to the second byte, and so on").
// The reference gives a meaning to the notations that say how wide the number is and that are one byte wide:
// 0x with one or two digits, 0b with up to eight digits, 0x<8>…, 0b<8>…. Any other number (plain decimal, 0d, 0u,
// longer hex) is read by its value, if that is a byte, and flagged: see "db:number-without-byte-size" in evalCase.
func (rs *refSource) dataLine(d *refData, line string, ln int) error {
	f := strings.Fields(line)
	if len(f) < 3 || !isIdent(f[0]) {
		return unsupported("line %d: data line %q", ln, line)
	}
	if f[1] != "db" {
		return unsupported("line %d: data directive %s", ln, f[1])
	}
	if d.lookup(f[0]) != nil {
		return unsupported("line %d: data symbol %s defined twice", ln, f[0])
	}
	rest := strings.TrimLeft(strings.TrimPrefix(strings.TrimSpace(line), f[0]), " ")
	rest = strings.TrimSpace(strings.TrimPrefix(rest, f[1]))
	v := refVar{Name: f[0], Off: len(d.Cells), Line: ln}
	// elements are separated by commas outside double quotes; a quoted element is a string and stands for the
	// bytes of its characters (pkg/basm dbDataConverter; the documentation only shows numbers)
	var elems []string
	cur, inStr := "", false
	for _, ch := range rest {
		switch {
		case ch == '"':
			inStr = !inStr
			cur += string(ch)
		case ch == ',' && !inStr:
			elems = append(elems, cur)
			cur = ""
		default:
			cur += string(ch)
		}
	}
	if inStr {
		return unsupported("line %d: string not closed in %q", ln, line)
	}
	elems = append(elems, cur)
	for _, e := range elems {
		e = strings.TrimSpace(e)
		if len(e) >= 2 && e[0] == '"' && e[len(e)-1] == '"' && strings.Count(e, `"`) == 2 {
			for _, ch := range []byte(e[1 : len(e)-1]) {
				if ch >= 0x80 {
					return unsupported("line %d: non-ASCII string %q", ln, e)
				}
				v.Bytes = append(v.Bytes, uint64(ch))
			}
			rs.Feat["db:string"] = true
			continue
		}
		x, kind, ok := parseLiteral(e)
		if !ok || x > 255 {
			return unsupported("line %d: data expression %q", ln, e)
		}
		sizedByte := false
		switch kind {
		case "0x":
			sizedByte = len(e) <= 4
		case "0b":
			sizedByte = len(e) <= 10
		case "0x<n>", "0b<n>":
			sizedByte = strings.Contains(e, "<8>")
		}
		if !sizedByte {
			rs.Feat["db:number-without-byte-size"] = true
		}
		v.Bytes = append(v.Bytes, x)
	}
	d.Vars = append(d.Vars, v)
	d.Cells = append(d.Cells, v.Bytes...)
	return nil
}

// ---------------------------------------------------------------------------
// literals

// parseLiteral is the reference's own number reader. kind names the notation.
func parseLiteral(s string) (v uint64, kind string, ok bool) {
	sized := func(body string) (int, string, bool) { // "<n>digits"
		if !strings.HasPrefix(body, "<") {
			return 0, body, true
		}
		j := strings.IndexByte(body, '>')
		if j < 2 {
			return 0, "", false
		}
		n := 0
		for _, c := range body[1:j] {
			if c < '0' || c > '9' {
				return 0, "", false
			}
			n = n*10 + int(c-'0')
			if n > 4096 {
				return 0, "", false
			}
		}
		if n == 0 {
			return 0, "", false
		}
		return n, body[j+1:], true
	}
	digits := func(d string, base uint64) (uint64, bool) {
		if d == "" {
			return 0, false
		}
		var acc uint64
		for _, c := range d {
			var x uint64
			switch {
			case c >= '0' && c <= '9':
				x = uint64(c - '0')
			case c >= 'a' && c <= 'f':
				x = uint64(c-'a') + 10
			case c >= 'A' && c <= 'F':
				x = uint64(c-'A') + 10
			default:
				return 0, false
			}
			if x >= base {
				return 0, false
			}
			hi, lo := bits.Mul64(acc, base)
			if hi != 0 || lo+x < lo {
				return 0, false
			}
			acc = lo + x
		}
		return acc, true
	}
	fits := func(v uint64, bits int) bool { return bits == 0 || bits >= 64 || v>>uint(bits) == 0 }
	switch {
	case strings.HasPrefix(s, "0x"):
		n, d, good := sized(s[2:])
		if !good {
			return 0, "", false
		}
		v, good = digits(d, 16)
		if !good || !fits(v, n) {
			return 0, "", false
		}
		if n > 0 {
			return v, "0x<n>", true
		}
		return v, "0x", true
	case strings.HasPrefix(s, "0b"):
		n, d, good := sized(s[2:])
		if !good {
			return 0, "", false
		}
		v, good = digits(d, 2)
		if !good || !fits(v, n) {
			return 0, "", false
		}
		if n > 0 {
			return v, "0b<n>", true
		}
		return v, "0b", true
	case strings.HasPrefix(s, "0d") || strings.HasPrefix(s, "0u"):
		p := s[:2]
		n, d, good := sized(s[2:])
		if !good {
			return 0, "", false
		}
		kind = p
		if n > 0 {
			kind = p + "<n>"
		} else if i := strings.IndexByte(d, '.'); i >= 0 {
			z := d[i+1:]
			if z == "" || strings.Trim(z, "0") != "" {
				return 0, "", false
			}
			d = d[:i]
			kind = p + "N.0"
		}
		v, good = digits(d, 10)
		if !good || !fits(v, n) {
			return 0, "", false
		}
		return v, kind, true
	default:
		v, good := digits(s, 10)
		if !good {
			return 0, "", false
		}
		return v, "dec", true
	}
}

// ---------------------------------------------------------------------------
// programs

type refIns struct {
	Op     string // canonical: rset cpy inc dec clr add mult nop j jz in out
	Rd, Rs int
	Imm    uint64
	Port   int
	Target int
	Pseudo bool   // written with a pseudo-instruction mnemonic (mov, jmp, noop)
	Mn     string // mnemonic as written
	Lit    string // literal notation
	Line   int
	Depth  int
	IOHow  string // for a pseudo-move to/from a port: which metadata levels were present
	RomSym string // rset whose operand is rom:<symbol>: Imm is the ROM address of the symbol
}

type refProg struct {
	Section     string
	Ins         []refIns
	Labels      map[string]int
	Entry       int
	NRegs       int
	Ins_, Outs_ map[int]bool // ports used (statically)
	LabelFirst  bool         // a label sits before the first instruction
	MultiLabel  bool         // some instruction carries several labels
	Data        *refData     // the data part of the ROM (nil = none)
	// OuterJumps: jumps written in a macro body whose label operand is defined by the section that uses the
	// macro. Key = source line of the jump, value = the instruction index the label denotes in this section.
	OuterJumps map[int]int
}

func parseReg(s string) (int, bool) {
	if len(s) < 2 || s[0] != 'r' {
		return 0, false
	}
	n, err := strconv.Atoi(s[1:])
	if err != nil || n < 0 || n > 255 || strconv.Itoa(n) != s[1:] {
		return 0, false
	}
	return n, true
}

func parsePort(s string, p byte) (int, bool) {
	s = strings.TrimSuffix(s, ":")
	if len(s) < 2 || s[0] != p {
		return 0, false
	}
	n, err := strconv.Atoi(s[1:])
	if err != nil || n < 0 || n > 255 || strconv.Itoa(n) != s[1:] {
		return 0, false
	}
	return n, true
}

const maxMacroDepth = 8

func (rs *refSource) expand(items []refItem, depth int, maxDepth *int) ([]refItem, error) {
	var out []refItem
	for _, it := range items {
		if it.Kind == itInstr {
			if m, ok := rs.Macros[it.Op]; ok {
				if len(it.Args) != m.NArgs {
					return nil, unsupported("line %d: macro %s used with %d arguments", it.Line, m.Name, len(it.Args))
				}
				if depth+1 > maxMacroDepth {
					return nil, unsupported("macro recursion")
				}
				if depth+1 > *maxDepth {
					*maxDepth = depth + 1
				}
				sub, err := rs.expand(m.Items, depth+1, maxDepth)
				if err != nil {
					return nil, err
				}
				for _, s := range sub {
					if s.Depth < depth+1 {
						s.Depth = depth + 1
					}
					if s.Macro == "" {
						s.Macro = m.Name
					}
					out = append(out, s)
				}
				continue
			}
		}
		out = append(out, it)
	}
	return out, nil
}

// macroIOModes: does some macro that moves data to or from a port with the pseudo-instruction mov (whose
// meaning depends on the io mode of the section it is expanded in) get expanded in sections of different
// io modes? Every section of the file counts, run by a CP or not.
func (rs *refSource) macroIOModes() bool {
	var movIO func(m *refMacro, depth int) bool
	movIO = func(m *refMacro, depth int) bool {
		for _, it := range m.Items {
			if it.Kind != itInstr {
				continue
			}
			if it.Op == "mov" {
				for _, a := range it.Args {
					if _, ok := parsePort(a, 'i'); ok {
						return true
					}
					if _, ok := parsePort(a, 'o'); ok {
						return true
					}
				}
			}
			if in, ok := rs.Macros[it.Op]; ok && depth < maxMacroDepth && movIO(in, depth+1) {
				return true
			}
		}
		return false
	}
	modes := map[string]map[string]bool{}
	var walk func(items []refItem, mode string, depth int)
	walk = func(items []refItem, mode string, depth int) {
		for _, it := range items {
			if it.Kind != itInstr {
				continue
			}
			if m, ok := rs.Macros[it.Op]; ok && depth < maxMacroDepth {
				if modes[m.Name] == nil {
					modes[m.Name] = map[string]bool{}
				}
				modes[m.Name][mode] = true
				walk(m.Items, mode, depth+1)
			}
		}
	}
	for _, sec := range rs.Sections {
		mode := sec.IOMode
		if mode == "" {
			mode = rs.IOMode
		}
		walk(sec.Items, mode, 0)
	}
	for name, ms := range modes {
		if len(ms) > 1 && movIO(rs.Macros[name], 0) {
			return true
		}
	}
	return false
}

// static features of a section as written (before expansion) that matter for triage
func (rs *refSource) sectionFeatures(sec *refSection, feat map[string]bool) {
	isUse := func(it refItem) bool {
		if it.Kind != itInstr {
			return false
		}
		_, ok := rs.Macros[it.Op]
		return ok
	}
	uses := map[string]int{}
	prevLineUse := false
	for i, it := range sec.Items {
		if it.Kind == itLabel {
			// every label of a run of labels that ends on a macro use is written on that use
			j := i + 1
			for j < len(sec.Items) && sec.Items[j].Kind == itLabel {
				j++
			}
			if j < len(sec.Items) && isUse(sec.Items[j]) {
				feat["macro:label-on-use"] = true
				rs.Lost[it.Name] = true
			}
			continue
		}
		u := isUse(it)
		if u {
			uses[it.Op]++
			feat["macro:used"] = true
			if prevLineUse {
				feat["macro:adjacent"] = true
			}
			m := rs.Macros[it.Op]
			if len(m.Items) == 0 {
				feat["macro:empty"] = true
			}
			if m.Line > it.Line {
				feat["macro:defined-after-use"] = true
			}
			for _, b := range m.Items {
				if isUse(b) {
					feat["macro:nested"] = true
				}
				if b.Kind == itLabel {
					feat["macro:inner-label"] = true
				}
			}
		}
		prevLineUse = u
	}
	for _, n := range uses {
		if n > 1 {
			feat["macro:reused-in-section"] = true
		}
	}
}

func (rs *refSource) compile(secName, dataName string, lenient bool) (*refProg, int, error) {
	sec, ok := rs.Sections[secName]
	if !ok {
		return nil, 0, unsupported("cp names an unknown section %s", secName)
	}
	var data *refData
	if dataName != "" {
		if data, ok = rs.Datas[dataName]; !ok {
			return nil, 0, unsupported("cp names an unknown data section %s", dataName)
		}
	}
	maxDepth := 0
	items, err := rs.expand(sec.Items, 0, &maxDepth)
	if err != nil {
		return nil, 0, err
	}
	// io mode of a line: line-level metadata, then the section's, then the global one
	known := func(m string) bool { return m == "sync" || m == "async" }
	ioOf := func(it refItem) (mode, how string) {
		lv := func(m string) string {
			if known(m) {
				return m
			}
			return "-"
		}
		how = fmt.Sprintf("line=%s,section=%s,global=%s", lv(it.LineIO), lv(sec.IOMode), lv(rs.IOMode))
		switch {
		case known(it.LineIO):
			return it.LineIO, how
		case known(sec.IOMode):
			return sec.IOMode, how
		case known(rs.IOMode):
			return rs.IOMode, how
		}
		return "", how
	}
	p := &refProg{Section: secName, Labels: map[string]int{}, Entry: -1, Ins_: map[int]bool{}, Outs_: map[int]bool{}, Data: data, OuterJumps: map[int]int{}}
	entryName := ""
	type pend struct {
		idx   int
		name  string
		line  int
		depth int
	}
	var fix []pend
	var romFix []int // instructions whose immediate is the ROM address of a data symbol
	labelDepth := map[string]int{}
	// romOperand: rom:<symbol> / rom:[rX]
	romSymbol := func(a string) (string, bool) {
		if strings.HasPrefix(a, "rom:") && isIdent(a[4:]) {
			return a[4:], true
		}
		return "", false
	}
	romIndirect := func(a string) (int, bool) {
		if strings.HasPrefix(a, "rom:[") && strings.HasSuffix(a, "]") {
			return parseReg(a[5 : len(a)-1])
		}
		return 0, false
	}
	romAddr := func(in *refIns, it refItem, sym string) error {
		in.Op, in.RomSym, in.Lit = "rset", sym, "rom-symbol"
		switch {
		case data != nil && data.lookup(sym) != nil:
			romFix = append(romFix, len(p.Ins))
		case lenient:
			// a section no CP runs: the symbol has no address
		default:
			return unsupported("line %d: %s is not a symbol of the data section of the cp", it.Line, sym)
		}
		return nil
	}
	nlab := 0
	for _, it := range items {
		switch it.Kind {
		case itLabel:
			if _, dup := p.Labels[it.Name]; dup {
				rs.Feat["dup-label"] = true
				return nil, maxDepth, unsupported("label %s defined twice in section %s", it.Name, secName)
			}
			p.Labels[it.Name] = len(p.Ins)
			labelDepth[it.Name] = it.Depth
			nlab++
			if len(p.Ins) == 0 {
				p.LabelFirst = true
			}
			if nlab > 1 {
				p.MultiLabel = true
			}
		case itEntry:
			if entryName != "" {
				return nil, maxDepth, unsupported("two entry directives in section %s", secName)
			}
			entryName = it.Name
		case itInstr:
			nlab = 0
			in := refIns{Line: it.Line, Depth: it.Depth, Target: -1, Mn: it.Op}
			a := it.Args
			reg := func(i int) (int, error) {
				if i >= len(a) {
					return 0, unsupported("line %d: %s: missing operand", it.Line, it.Op)
				}
				r, ok := parseReg(a[i])
				if !ok {
					return 0, unsupported("line %d: %s: operand %q is not a register", it.Line, it.Op, a[i])
				}
				if r+1 > p.NRegs {
					p.NRegs = r + 1
				}
				return r, nil
			}
			nargs := func(n int) error {
				if len(a) != n {
					return unsupported("line %d: %s with %d operands", it.Line, it.Op, len(a))
				}
				return nil
			}
			var e error
			switch it.Op {
			case "nop", "noop":
				e = nargs(0)
				in.Op, in.Pseudo = "nop", it.Op == "noop"
			case "inc", "dec", "clr":
				if e = nargs(1); e == nil {
					in.Op = it.Op
					in.Rd, e = reg(0)
				}
			case "add", "mult", "cpy":
				if e = nargs(2); e == nil {
					in.Op = it.Op
					if in.Rd, e = reg(0); e == nil {
						in.Rs, e = reg(1)
					}
				}
			case "rset":
				if e = nargs(2); e == nil {
					in.Op = "rset"
					if in.Rd, e = reg(0); e == nil {
						if sym, ok := romSymbol(a[1]); ok {
							e = romAddr(&in, it, sym)
							break
						}
						v, k, ok := parseLiteral(a[1])
						if !ok {
							e = unsupported("line %d: literal %q", it.Line, a[1])
						}
						in.Imm, in.Lit = v, k
					}
				}
			case "j", "jmp":
				if e = nargs(1); e == nil {
					in.Op, in.Pseudo = "j", it.Op == "jmp"
					if !isIdent(a[0]) {
						e = unsupported("line %d: jump operand %q is not a label", it.Line, a[0])
					}
					fix = append(fix, pend{len(p.Ins), a[0], it.Line, it.Depth})
				}
			case "jz":
				if e = nargs(2); e == nil {
					in.Op = "jz"
					if in.Rd, e = reg(0); e == nil {
						if !isIdent(a[1]) {
							e = unsupported("line %d: jump operand %q is not a label", it.Line, a[1])
						}
						fix = append(fix, pend{len(p.Ins), a[1], it.Line, it.Depth})
					}
				}
			case "i2rw":
				if e = nargs(2); e == nil {
					in.Op = "in"
					if in.Rd, e = reg(0); e == nil {
						pt, ok := parsePort(a[1], 'i')
						if !ok {
							e = unsupported("line %d: i2rw operand %q", it.Line, a[1])
						}
						in.Port = pt
						p.Ins_[pt] = true
					}
				}
			case "r2owa":
				if e = nargs(2); e == nil {
					in.Op = "out"
					if in.Rs, e = reg(0); e == nil {
						pt, ok := parsePort(a[1], 'o')
						if !ok {
							e = unsupported("line %d: r2owa operand %q", it.Line, a[1])
						}
						in.Port = pt
						p.Outs_[pt] = true
					}
				}
			case "mov":
				if e = nargs(2); e != nil {
					break
				}
				in.Pseudo = true
				if pt, ok := parsePort(a[0], 'o'); ok {
					// mov oK, rX
					iomode, how := ioOf(it)
					if iomode != "sync" && !lenient {
						e = unsupported("line %d: mov to an output with iomode %q", it.Line, iomode)
						break
					}
					if iomode != "sync" {
						rs.Feat["unused-section:async-io"] = true
					}
					in.IOHow = "io-out:" + how
					in.Op, in.Port = "out", pt
					p.Outs_[pt] = true
					in.Rs, e = reg(1)
					break
				}
				if in.Rd, e = reg(0); e != nil {
					break
				}
				if pt, ok := parsePort(a[1], 'i'); ok {
					iomode, how := ioOf(it)
					if iomode != "sync" && !lenient {
						e = unsupported("line %d: mov from an input with iomode %q", it.Line, iomode)
						break
					}
					if iomode != "sync" {
						rs.Feat["unused-section:async-io"] = true
					}
					in.IOHow = "io-in:" + how
					in.Op, in.Port = "in", pt
					p.Ins_[pt] = true
					break
				}
				if sym, ok := romSymbol(a[1]); ok {
					e = romAddr(&in, it, sym)
					break
				}
				if r, ok := romIndirect(a[1]); ok {
					in.Op, in.Rs = "romrd", r
					if r+1 > p.NRegs {
						p.NRegs = r + 1
					}
					break
				}
				if r, ok := parseReg(a[1]); ok {
					in.Op, in.Rs = "cpy", r
					if r+1 > p.NRegs {
						p.NRegs = r + 1
					}
					break
				}
				if v, k, ok := parseLiteral(a[1]); ok {
					in.Op, in.Imm, in.Lit = "rset", v, k
					rs.Feat["mov-literal"] = true
					if v >= 32 {
						rs.Feat["mov-literal>=32"] = true
					}
					break
				}
				e = unsupported("line %d: mov operand %q", it.Line, a[1])
			default:
				e = unsupported("line %d: instruction %q", it.Line, it.Op)
			}
			if e != nil {
				return nil, maxDepth, e
			}
			p.Ins = append(p.Ins, in)
		}
	}
	for _, f := range fix {
		t, ok := p.Labels[f.name]
		if !ok {
			return nil, maxDepth, unsupported("line %d: jump to undefined label %s", f.line, f.name)
		}
		p.Ins[f.idx].Target = t
		if f.depth > 0 && labelDepth[f.name] == 0 {
			p.OuterJumps[f.line] = t
		}
	}
	for _, i := range romFix {
		p.Ins[i].Imm = uint64(len(p.Ins) + data.lookup(p.Ins[i].RomSym).Off)
		if rs.Rsize < 64 && p.Ins[i].Imm>>uint(rs.Rsize) != 0 {
			rs.Feat["rom-address-wider-than-register"] = true
		}
	}
	if entryName == "" {
		return nil, maxDepth, unsupported("section %s has no entry directive", secName)
	}
	t, ok := p.Labels[entryName]
	if !ok {
		return nil, maxDepth, unsupported("entry label %s not defined in section %s", entryName, secName)
	}
	p.Entry = t
	return p, maxDepth, nil
}

// ---------------------------------------------------------------------------
// network

type endpoint struct {
	CP   int // -1 = the machine's own port
	Port int
}

type refChan struct {
	Name     string
	Src, Dst endpoint
	Hist     []uint64 // every value ever written
	rd       int      // next value to be read
}

type refNet struct {
	Src      *refSource
	Progs    []*refProg // per CP
	Chans    []*refChan
	InChan   [][]int // per CP, per input port: channel index or -1
	OutChan  [][]int
	NIn      int // external inputs / outputs of the machine
	NOut     int
	ExtIn    []int // channel index per external input
	ExtOut   []int
	MaxDepth int
}

func (rs *refSource) network() (*refNet, error) {
	if len(rs.CPs) == 0 {
		return nil, unsupported("no cpdef")
	}
	n := &refNet{Src: rs}
	cpIdx := map[string]int{}
	compiled := map[string]*refProg{}
	for i, cp := range rs.CPs {
		cpIdx[cp.Name] = i
		if cp.Name == "bm" {
			return nil, unsupported("a cp named bm")
		}
		if cp.RomCode == "" {
			return nil, unsupported("cp %s without romcode", cp.Name)
		}
		p, ok := compiled[cp.RomCode+"\x00"+cp.RomData]
		if !ok {
			var err error
			var d int
			p, d, err = rs.compile(cp.RomCode, cp.RomData, false)
			if err != nil {
				return nil, err
			}
			if d > n.MaxDepth {
				n.MaxDepth = d
			}
			compiled[cp.RomCode+"\x00"+cp.RomData] = p
		}
		n.Progs = append(n.Progs, p)
		mk := func(used map[int]bool) []int {
			max := -1
			for k := range used {
				if k > max {
					max = k
				}
			}
			r := make([]int, max+1)
			for i := range r {
				r[i] = -1
			}
			return r
		}
		n.InChan = append(n.InChan, mk(p.Ins_))
		n.OutChan = append(n.OutChan, mk(p.Outs_))
	}
	// pair the attachments by name
	byName := map[string][]refAtt{}
	var names []string
	for _, a := range rs.Atts {
		if _, ok := byName[a.Name]; !ok {
			names = append(names, a.Name)
		}
		byName[a.Name] = append(byName[a.Name], a)
	}
	n.NIn, n.NOut = 0, 0
	extIn := map[int]int{}
	extOut := map[int]int{}
	for _, name := range names {
		as := byName[name]
		if len(as) != 2 {
			return nil, unsupported("ioatt %s has %d endpoints", name, len(as))
		}
		ch := &refChan{Name: name}
		haveSrc, haveDst := false, false
		for _, a := range as {
			var ep endpoint
			var isSrc bool
			if a.CP == "bm" {
				ep = endpoint{-1, a.Index}
				isSrc = a.Type == "input" // a machine input feeds the network
			} else {
				ci, ok := cpIdx[a.CP]
				if !ok {
					return nil, unsupported("ioatt %s names an unknown cp %s", name, a.CP)
				}
				ep = endpoint{ci, a.Index}
				isSrc = a.Type == "output"
			}
			if isSrc {
				if haveSrc {
					return nil, unsupported("ioatt %s has two sources", name)
				}
				ch.Src, haveSrc = ep, true
			} else {
				if haveDst {
					return nil, unsupported("ioatt %s has two sinks", name)
				}
				ch.Dst, haveDst = ep, true
			}
		}
		if !haveSrc || !haveDst {
			return nil, unsupported("ioatt %s lacks a source or a sink", name)
		}
		ci := len(n.Chans)
		n.Chans = append(n.Chans, ch)
		if ch.Src.CP >= 0 {
			oc := n.OutChan[ch.Src.CP]
			if ch.Src.Port >= len(oc) {
				return nil, unsupported("ioatt %s: cp output %d is not used by the code", name, ch.Src.Port)
			}
			if oc[ch.Src.Port] != -1 {
				return nil, unsupported("fan-out on output %d of cp %d", ch.Src.Port, ch.Src.CP)
			}
			oc[ch.Src.Port] = ci
		} else {
			if _, dup := extIn[ch.Src.Port]; dup {
				return nil, unsupported("machine input %d attached twice", ch.Src.Port)
			}
			extIn[ch.Src.Port] = ci
		}
		if ch.Dst.CP >= 0 {
			ic := n.InChan[ch.Dst.CP]
			if ch.Dst.Port >= len(ic) {
				return nil, unsupported("ioatt %s: cp input %d is not used by the code", name, ch.Dst.Port)
			}
			if ic[ch.Dst.Port] != -1 {
				return nil, unsupported("two sources on input %d of cp %d", ch.Dst.Port, ch.Dst.CP)
			}
			ic[ch.Dst.Port] = ci
		} else {
			if _, dup := extOut[ch.Dst.Port]; dup {
				return nil, unsupported("machine output %d attached twice", ch.Dst.Port)
			}
			extOut[ch.Dst.Port] = ci
		}
	}
	fill := func(m map[int]int) ([]int, error) {
		r := make([]int, len(m))
		for i := range r {
			c, ok := m[i]
			if !ok {
				return nil, unsupported("machine ports are not numbered 0..n-1")
			}
			r[i] = c
		}
		return r, nil
	}
	var err error
	if n.ExtIn, err = fill(extIn); err != nil {
		return nil, err
	}
	if n.ExtOut, err = fill(extOut); err != nil {
		return nil, err
	}
	n.NIn, n.NOut = len(n.ExtIn), len(n.ExtOut)
	return n, nil
}

// refStats is what the interpretation measured (dynamic facts: only executed instructions count).
type refStats struct {
	BackTaken, FwdTaken int
	Pseudo              int
	PseudoKinds         map[string]bool
	Lits                map[string]bool
	IOHow               map[string]bool // metadata combinations of the executed pseudo-moves
	MacroInstr          int             // executed instructions that came from a macro body
	FellOff             bool
	Overflow            bool // a literal does not fit the register
	RomReads            int  // executed reads of a data cell
	RomOutside          bool // a read of a ROM cell that is not a data cell (instruction word, or past the end)
	Steps               int
}

type refResult struct {
	Out   [][]uint64 // per external output
	Chans []*refChan
	Stats refStats
}

// run interprets the network for at most `rounds` rounds (one instruction per CP and round), stopping
// early when nothing can move or every external output has `cap` values.
//
// rendezvous=false: a bond between two CPs is an unbounded stream (the writer never waits): the longest
// history any timing can produce, used for the prefix comparison. rendezvous=true: r2owa completes only
// once the reader has taken the value (what the handshake of the machine does), used for the lower bound
// on progress.
func (n *refNet) run(in [][]uint64, rounds, cap int, rendezvous bool) *refResult {
	rsz := n.Src.Rsize
	mask := ^uint64(0)
	if rsz < 64 {
		mask = (uint64(1) << uint(rsz)) - 1
	}
	for _, c := range n.Chans {
		c.Hist, c.rd = nil, 0
	}
	waitAck := make([]bool, len(n.Progs))
	for i, ci := range n.ExtIn {
		if i < len(in) {
			for _, v := range in[i] {
				n.Chans[ci].Hist = append(n.Chans[ci].Hist, v&mask)
			}
		}
	}
	type cpu struct {
		regs   []uint64
		pc     int
		halted bool
	}
	cps := make([]*cpu, len(n.Progs))
	for i, p := range n.Progs {
		nr := p.NRegs
		if nr == 0 {
			nr = 1
		}
		cps[i] = &cpu{regs: make([]uint64, nr), pc: p.Entry}
	}
	res := &refResult{}
	st := &res.Stats
	st.PseudoKinds = map[string]bool{}
	st.Lits = map[string]bool{}
	st.IOHow = map[string]bool{}
	for r := 0; r < rounds; r++ {
		moved := false
		for ci, c := range cps {
			if c.halted {
				continue
			}
			p := n.Progs[ci]
			if c.pc < 0 || c.pc >= len(p.Ins) {
				c.halted = true
				st.FellOff = true
				continue
			}
			in := p.Ins[c.pc]
			next := c.pc + 1
			switch in.Op {
			case "nop":
			case "rset":
				if in.Imm&^mask != 0 {
					st.Overflow = true
				}
				c.regs[in.Rd] = in.Imm & mask
				st.Lits[in.Lit] = true
			case "cpy":
				c.regs[in.Rd] = c.regs[in.Rs]
			case "romrd":
				a := c.regs[in.Rs]
				if p.Data == nil || a < uint64(len(p.Ins)) || a-uint64(len(p.Ins)) >= uint64(len(p.Data.Cells)) {
					st.RomOutside = true
					c.halted = true
					continue
				}
				c.regs[in.Rd] = p.Data.Cells[a-uint64(len(p.Ins))] & mask
				st.RomReads++
			case "inc":
				c.regs[in.Rd] = (c.regs[in.Rd] + 1) & mask
			case "dec":
				c.regs[in.Rd] = (c.regs[in.Rd] - 1) & mask
			case "clr":
				c.regs[in.Rd] = 0
			case "add":
				c.regs[in.Rd] = (c.regs[in.Rd] + c.regs[in.Rs]) & mask
			case "mult":
				c.regs[in.Rd] = (c.regs[in.Rd] * c.regs[in.Rs]) & mask
			case "j":
				next = in.Target
			case "jz":
				if c.regs[in.Rd] == 0 {
					next = in.Target
				}
			case "in":
				chI := -1
				if in.Port < len(n.InChan[ci]) {
					chI = n.InChan[ci][in.Port]
				}
				if chI < 0 {
					continue // unattached input: waits for ever
				}
				ch := n.Chans[chI]
				if ch.rd >= len(ch.Hist) {
					continue // blocked
				}
				c.regs[in.Rd] = ch.Hist[ch.rd]
				ch.rd++
			case "out":
				chI := -1
				if in.Port < len(n.OutChan[ci]) {
					chI = n.OutChan[ci][in.Port]
				}
				if chI < 0 {
					continue // nobody ever acknowledges an unattached output: waits for ever
				}
				ch := n.Chans[chI]
				if rendezvous && ch.Dst.CP >= 0 {
					if waitAck[ci] {
						if ch.rd < len(ch.Hist) {
							continue // not taken yet
						}
						waitAck[ci] = false
					} else {
						ch.Hist = append(ch.Hist, c.regs[in.Rs])
						waitAck[ci] = true
						moved = true
						continue
					}
				} else {
					ch.Hist = append(ch.Hist, c.regs[in.Rs])
				}
			}
			moved = true
			st.Steps++
			if in.IOHow != "" {
				st.IOHow[in.IOHow] = true
			}
			if in.Pseudo {
				st.Pseudo++
				st.PseudoKinds[in.Mn+">"+in.Op] = true
			}
			if in.Depth > 0 {
				st.MacroInstr++
			}
			if next != c.pc+1 || in.Op == "j" {
				if next <= c.pc {
					st.BackTaken++
				} else {
					st.FwdTaken++
				}
			}
			c.pc = next
		}
		if !moved {
			break
		}
		if cap > 0 && len(n.ExtOut) > 0 {
			full := true
			for _, ci := range n.ExtOut {
				if len(n.Chans[ci].Hist) < cap {
					full = false
				}
			}
			if full {
				break
			}
		}
	}
	for _, ci := range n.ExtOut {
		res.Out = append(res.Out, append([]uint64(nil), n.Chans[ci].Hist...))
	}
	res.Chans = n.Chans
	return res
}

// wiring returns the bonds the source declares, each as an unordered pair in the machine's
// endpoint names (i0, o0, p0i1, p2o0), sorted. Used only by the triage of a multi-CP mismatch.
func (n *refNet) wiring() []string {
	// the assembler numbers the processors in the byte order of their names (templateresolver.go sorts the cpdefs)
	rank := make([]int, len(n.Src.CPs))
	for i, a := range n.Src.CPs {
		for _, b := range n.Src.CPs {
			if b.Name < a.Name {
				rank[i]++
			}
		}
	}
	name := func(e endpoint, src bool) string {
		switch {
		case e.CP < 0 && src:
			return fmt.Sprintf("i%d", e.Port)
		case e.CP < 0:
			return fmt.Sprintf("o%d", e.Port)
		case src:
			return fmt.Sprintf("p%do%d", rank[e.CP], e.Port)
		}
		return fmt.Sprintf("p%di%d", rank[e.CP], e.Port)
	}
	var r []string
	for _, c := range n.Chans {
		a, b := name(c.Src, true), name(c.Dst, false)
		if a > b {
			a, b = b, a
		}
		r = append(r, a+"~"+b)
	}
	sort.Strings(r)
	return r
}
