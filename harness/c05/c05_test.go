// C05 — an assembled BASM program means what its source says.
// Generated .basm sources (gen.go); oracle = reference interpreter of the source text (ref.go);
// system under test = pkg/basm driven exactly as cmd/basm drives it (asm.go), simulated by
// bondmachine.VM under a protocol-abiding environment (gen.Runner). Value streams on the
// external outputs are compared prefix-wise, timing-free; a lower bound on progress (the machine must
// deliver what a rendezvous execution of the source delivers in Ticks/6 instruction rounds) catches
// machines that hang or starve.
//
// Entries
//
//	TestProps/streams        main campaign
//	TestProps/macro_shapes   odd macro shapes; "assembler error" is an accepted outcome for them
//	TestKnown/entry_not_first    confirms D6   (signature D6:entry-ignored)
//	TestKnown/macro_iomode_leak  confirms the shared-macro-lines defect (macro-lines-shared:iomode-leak)
//	TestKnown/label_leak         confirms the label-leak defect (label-leak:trailing-label-captures-jump)
//	TestHygiene              goroutines / opcode registry do not grow over many assemblies
//	FuzzParseAssembly        native fuzzing of the text front end (thorough tier)
//	TestInspect              triage aid (C05_REPLAY=<file> or C05_SRC=<file> C05_CFG=<cfg>)
//
// Recorded defects of the unchanged repository, excluded from the main campaign by construction (each
// exclusion is counted; one minimal failing case each under /verif/replays/C05/known/):
//
//	D6  `entry <label>` is recorded (entrypoints.go:113 body meta "entry") and never used: execution starts
//	    at ROM address 0 even when the entry label is not on the first instruction.
//	macro-lines-shared:iomode-leak  expandMacro (macroresolver.go:73) returns the macro's own line objects;
//	    metadataInfer (metadatainfer.go:111-157) writes the io mode of the section being processed on them,
//	    so with one macro expanded in a sync and in an async section the section processed last (Go map
//	    order: non-deterministic) decides whether `mov oK, rX` becomes r2owa or r2o in BOTH.
//	label-leak  the line parser keeps a pending label across %endsection/%endmacro (asmparser.go:257-264,
//	    isSymbolled is only cleared by the next instruction line), so a label after the last instruction of
//	    a block is attached to the first line of the next block; macroResolver drops the use line together
//	    with the label written on it (macroresolver.go:66). Together a jump can silently land in another
//	    macro's expansion.
//
// Observed on the unchanged repository while adding data sections (not judged, excluded by construction and
// counted as db:number-without-byte-size): docinstructions.md says every expression of `db` is one byte
// (`examplevar db 1, 2, 3`), the assembler takes the width from the notation: `db 1, 2, 3` becomes 24 ROM cells
// (each plain/0d/0u number 8 cells, big endian), `db 0x0102` two. The campaign writes bytes as 0xH, 0xHH, 0b…,
// 0x<8>…, 0b<8>….
//
// A stream mismatch on a multi-CP machine is attributed to the simulator's handshake (C04) only if every
// processor of the machine is, program and ROM data, what the assembler makes of its CP alone (triageMultiCP):
// what the assembler does differently for CPs that share a text or a macro is a C05 matter.
//
// Accepted refusals (counted as rejected:<class>): see mayReject and the mov-literal note in evalCase.
package c05

import (
	"fmt"
	"runtime"
	"runtime/debug"
	"sort"
	"strings"
	"testing"

	"github.com/BondMachineHQ/BondMachine/pkg/bondmachine"
	"verifharness/gen"
	"verifharness/pbt"
)

// The assembler compiles some hundred regular expressions per source line (bmline.MatchArg); with the
// default GC target a third of the run is collector work. Not a correctness knob.
func init() { debug.SetGCPercent(400) }

const slowdown = 6 // see the progress check in evalOnce

const minCompared = 3 // a case with fewer compared values on every output is "short" (inconclusive, not failed)

// mayReject lists the source shapes for which DESIGN §C05 accepts "assembler error" as an outcome
// (read in macroresolver.go / asmparser.go: a macro use loses the label written on it, the line after a
// use is not examined, inserted lines are not re-expanded, macro lines are shared objects; a label
// after the last instruction of a block is carried over to the next block of the file; a label directly
// before the entry directive is attached to the directive and removed with it).
var mayReject = []string{"macro:adjacent", "macro:label-on-use", "macro:nested", "dup-label", "trailing-label", "label-before-entry"}

// mode says which recorded defect a campaign judges instead of excluding.
type mode struct {
	D6   bool // entry label not on the first instruction
	Leak bool // a macro with mov-IO expanded in sections of different io modes
	Fuzz bool // mutated text: the reference not reading it, or the assembler refusing it, is not judged
	// LabelLeak: a label lost on a macro use (or before the entry directive) whose name is also written after
	// the last instruction of some block
	LabelLeak bool
	DbUnsized bool // a `db` expression written without a byte size (plain decimal, 0d, 0u, long hex)
}

var (
	modeMain       = mode{}
	modeKnownD6    = mode{D6: true}
	modeKnownLeak  = mode{Leak: true}
	modeFuzz       = mode{Fuzz: true}
	modeKnownLeak2 = mode{LabelLeak: true}
	modeKnownDb    = mode{DbUnsized: true}
)

// leakRepeats: the defect behind modeKnownLeak depends on the iteration order of a Go map inside the
// assembler, so one evaluation shows it with probability 1/2 (two sections). The known-defect entry
// assembles the same source that many times and reports the first run that differs.
const leakRepeats = 10

func fmtStream(xs []uint64, n int) string {
	if len(xs) > n {
		return fmt.Sprintf("%v… (%d values)", xs[:n], len(xs))
	}
	return fmt.Sprint(xs)
}

func bondSet(bm *bondmachine.Bondmachine) []string {
	var r []string
	for _, b := range bm.List_bonds() {
		e := strings.Split(b, ",")
		if len(e) != 2 {
			r = append(r, b)
			continue
		}
		if e[0] > e[1] {
			e[0], e[1] = e[1], e[0]
		}
		r = append(r, e[0]+"~"+e[1])
	}
	sort.Strings(r)
	return r
}

// aloneSource rewrites the text so that only CP ci exists, every port it has in the original
// wiring attached to a machine port.
func aloneSource(src string, rs *refSource, net *refNet, ci int) (text string, inChans, outChans []int) {
	var keep []string
	for _, l := range strings.Split(src, "\n") {
		f := strings.Fields(strings.ReplaceAll(l, "\t", " "))
		if len(f) >= 2 && f[0] == "%meta" && (f[1] == "cpdef" || f[1] == "ioatt") {
			continue
		}
		keep = append(keep, strings.TrimSuffix(l, "\r"))
	}
	cp := rs.CPs[ci]
	def := fmt.Sprintf("%%meta cpdef %s romcode: %s", cp.Name, cp.RomCode)
	if cp.RomData != "" {
		def += ", romdata: " + cp.RomData
	}
	keep = append(keep, def)
	for port, ch := range net.InChan[ci] {
		if ch < 0 {
			continue
		}
		keep = append(keep, fmt.Sprintf("%%meta ioatt tin%d cp: %s, index:%d, type:input", port, cp.Name, port))
		keep = append(keep, fmt.Sprintf("%%meta ioatt tin%d cp: bm, index:%d, type:input", port, len(inChans)))
		inChans = append(inChans, ch)
	}
	for port, ch := range net.OutChan[ci] {
		if ch < 0 {
			continue
		}
		keep = append(keep, fmt.Sprintf("%%meta ioatt tout%d cp: %s, index:%d, type:output", port, cp.Name, port))
		keep = append(keep, fmt.Sprintf("%%meta ioatt tout%d cp: bm, index:%d, type:output", port, len(outChans)))
		outChans = append(outChans, ch)
	}
	return strings.Join(keep, "\n") + "\n", inChans, outChans
}

// triage of a stream mismatch seen on a multi-CP machine: is the wiring the declared one, is every processor
// of the machine the same (program and ROM data) as the one the assembler makes of its CP alone, and
// does every CP, assembled and simulated alone on the streams the reference computed for its inputs,
// produce the reference streams? Then the processors and the bonds are what the source says and the
// difference comes from the simulator's handshake between processors (C04's D4/D5), not from the assembler.
func triageMultiCP(c Case, rs *refSource, net *refNet, ref *refResult, bm *bondmachine.Bondmachine, badOut, badIdx int) (quirk bool, detail string) {
	want := net.wiring()
	got := bondSet(bm)
	if fmt.Sprint(want) != fmt.Sprint(got) {
		return false, fmt.Sprintf("bonds of the machine %v differ from the declared ones %v", got, want)
	}
	var notes []string
	rank := cpRank(rs)
	for ci := range rs.CPs {
		src, inCh, outCh := aloneSource(c.Src, rs, net, ci)
		abm, aerr := assemble(src, c.Cfg)
		if aerr != nil {
			return false, fmt.Sprintf("cp %s alone is not assembled: %v", rs.CPs[ci].Name, aerr)
		}
		// the processor of the whole machine has to be the one that was tried alone: same program, same ROM data
		if pi := rank[ci]; pi < len(bm.Processors) && bm.Processors[pi] < len(bm.Domains) && len(abm.Domains) == 1 {
			full, alone := bm.Domains[bm.Processors[pi]], abm.Domains[0]
			fd, ferr := full.Disassembler()
			ad, aerr := alone.Disassembler()
			if ferr != nil || aerr != nil || fd != ad || fmt.Sprint(full.Data.Vars) != fmt.Sprint(alone.Data.Vars) {
				return false, fmt.Sprintf("cp %s (processor %d) is assembled differently in the whole machine than alone:\n--- whole machine (ROM data %v)\n%s--- alone (ROM data %v)\n%s",
					rs.CPs[ci].Name, pi, full.Data.Vars, fd, alone.Data.Vars, ad)
			}
		}
		env := gen.Env{}
		for _, ch := range inCh {
			env.In = append(env.In, ref.Chans[ch].Hist)
		}
		out, _, err := simulate(abm, env, 2*c.Ticks)
		if err != nil {
			return false, fmt.Sprintf("cp %s alone: %v", rs.CPs[ci].Name, err)
		}
		for k, ch := range outCh {
			exp := ref.Chans[ch].Hist
			if k >= len(out) {
				return false, fmt.Sprintf("cp %s alone lacks output %d", rs.CPs[ci].Name, k)
			}
			n := len(exp)
			if len(out[k]) < n {
				n = len(out[k])
			}
			for i := 0; i < n; i++ {
				if out[k][i] != exp[i] {
					return false, fmt.Sprintf("cp %s alone differs from the reference on its output stream %q at position %d: machine %s, source %s",
						rs.CPs[ci].Name, ref.Chans[ch].Name, i, fmtStream(out[k], 24), fmtStream(exp, 24))
				}
			}
			// the CP that drives the differing machine output has to get past the differing position
			if ch == net.ExtOut[badOut] && n <= badIdx {
				return false, fmt.Sprintf("cp %s alone delivers only %d values on %q, the difference is at position %d", rs.CPs[ci].Name, n, ref.Chans[ch].Name, badIdx)
			}
			notes = append(notes, fmt.Sprintf("%s/%s:%d ok", rs.CPs[ci].Name, ref.Chans[ch].Name, n))
		}
	}
	return true, strings.Join(notes, ", ")
}

func evalCase(c Case, m mode) (out pbt.Outcome) {
	lab := map[string]bool{}
	defer func() {
		for l := range lab {
			out.Labels = append(out.Labels, l)
		}
		sort.Strings(out.Labels)
	}()
	rs, err := parseSource(c.Src)
	if err != nil {
		if m.Fuzz {
			return pbt.Outcome{Excluded: "reference-does-not-read"}
		}
		return pbt.Outcome{Fail: pbt.Failf("harness:ref-rejects", "the reference does not read a generated source: %v", err)}
	}
	// features of every section (the passes process sections no CP runs, too)
	live := map[string]bool{}
	for _, cp := range rs.CPs {
		live[cp.RomCode] = true
	}
	feat := rs.Feat
	for _, name := range rs.SecOrder {
		rs.sectionFeatures(rs.Sections[name], feat)
		if !live[name] {
			lab["dead-section"] = true
			if _, _, err := rs.compile(name, "", true); err != nil {
				if m.Fuzz {
					return pbt.Outcome{Excluded: "reference-does-not-read"}
				}
				if !feat["dup-label"] {
					return pbt.Outcome{Fail: pbt.Failf("harness:ref-rejects", "the reference does not read a generated source: %v", err)}
				}
			}
		}
	}
	net, err := rs.network()
	if err != nil && m.Fuzz {
		return pbt.Outcome{Excluded: "reference-does-not-read"}
	}
	if err != nil && !feat["dup-label"] {
		return pbt.Outcome{Fail: pbt.Failf("harness:ref-rejects", "the reference does not read a generated source: %v", err)}
	}
	for f := range feat {
		lab[f] = true
	}
	rejectable := ""
	for _, f := range mayReject {
		if feat[f] {
			rejectable = f
			break
		}
	}
	// `mov <reg>, <literal>` also matches the dynamically created rsets5/rsets6/rsets7 unless dynamical
	// matching is disabled. Without a chooser the assembler asks for one ("unable to choose the code among
	// the alternatives, a criteria is needed"): a clean, explicit refusal. With -chooser-min-word-size the
	// narrowest alternative that encodes every literal of the section is taken.
	if rejectable == "" && c.Cfg == cfgDefault && feat["mov-literal"] {
		rejectable = "mov-literal-without-chooser"
	}
	// the ROM address of a data symbol is loaded by rset: it has to fit the register (code and data longer than
	// 2^registersize cells on an 8 bit machine)
	if rejectable == "" && feat["rom-address-wider-than-register"] {
		rejectable = "rom-address-wider-than-register"
	}
	lab["cfg="+c.Cfg] = true
	lab[fmt.Sprintf("rsize=%d", rs.Rsize)] = true
	lab[fmt.Sprintf("cps=%d", len(rs.CPs))] = true
	lab[fmt.Sprintf("sections=%d", len(rs.SecOrder))] = true
	d6 := false
	if net != nil {
		lab[fmt.Sprintf("macro-depth=%d", net.MaxDepth)] = true
		seen := map[string]bool{}
		for _, p := range net.Progs {
			if seen[p.Section] {
				lab["shared-section"] = true
			}
			seen[p.Section] = true
			if p.Entry != 0 {
				d6 = true
			}
			if p.LabelFirst {
				lab["label-on-first-line"] = true
			}
			if p.MultiLabel {
				lab["several-labels-on-one-instruction"] = true
			}
		}
		shapeLabels(rs, net, lab)
		for _, ch := range net.Chans {
			if ch.Src.CP >= 0 && ch.Dst.CP >= 0 {
				lab["bond:cp-cp"] = true
			}
			if ch.Src.CP < 0 {
				lab["bond:bm-cp"] = true
			}
		}
	}
	leak := rs.macroIOModes()
	if d6 {
		lab["entry-not-first"] = true
	}
	if leak {
		lab["macro:mov-io-in-sync-and-async-sections"] = true
	}
	labelLeak := false
	for n := range rs.Lost {
		if rs.Trailing[n] {
			labelLeak = true
		}
	}
	if labelLeak {
		lab["label-leak-shape"] = true
	}
	dbUnsized := feat["db:number-without-byte-size"]
	if m.DbUnsized && !dbUnsized {
		return pbt.Outcome{Excluded: "no-unsized-db"}
	}
	if dbUnsized && !m.Fuzz && !m.DbUnsized {
		// docinstructions.md: every expression of `db` is one byte (`examplevar db 1, 2, 3`). The assembler takes the
		// width from the notation: a number written without a size (plain decimal, 0d, 0u) becomes 8 cells, 0x1234 two.
		// Recorded as a finding candidate; the main campaign writes bytes as 0xH, 0xHH, 0b…, 0x<8>…, 0b<8>… only.
		return pbt.Outcome{Excluded: "db:number-without-byte-size"}
	}
	switch {
	case labelLeak && !m.LabelLeak && !m.Fuzz:
		// a label after the last instruction of a block is carried by the line parser to the first line of the
		// next block of the file; if that is a macro the label is defined wherever the macro is expanded, and a
		// jump whose own label was lost (written on a macro use / before the entry directive) silently lands there
		return pbt.Outcome{Excluded: "label-leak:trailing-label-captures-jump"}
	case m.LabelLeak && !labelLeak:
		return pbt.Outcome{Excluded: "no-label-leak-shape"}
	case d6 && !m.D6:
		return pbt.Outcome{Excluded: "D6:entry-not-first"}
	case leak && !m.Leak:
		return pbt.Outcome{Excluded: "macro-lines-shared:iomode-leak"}
	case m.D6 && !d6:
		return pbt.Outcome{Excluded: "entry-first"}
	case m.Leak && !leak:
		return pbt.Outcome{Excluded: "no-macro-across-iomodes"}
	}
	repeats := 1
	if m.Leak {
		repeats = leakRepeats
	}
	for rep := 0; rep < repeats; rep++ {
		out = evalOnce(c, m, rs, net, lab, rejectable, d6, leak)
		if out.Fail != nil && labelLeak && m.LabelLeak && (out.Fail.Sig == "stream-mismatch" || out.Fail.Sig == "stream-extra" || out.Fail.Sig == "starved") {
			out.Fail.Sig = "label-leak:trailing-label-captures-jump"
		}
		if out.Fail != nil || out.Excluded != "" {
			return out
		}
	}
	return out
}

func evalOnce(c Case, m mode, rs *refSource, net *refNet, lab map[string]bool, rejectable string, d6, leak bool) pbt.Outcome {
	feat := rs.Feat
	dbUnsized := feat["db:number-without-byte-size"]
	_ = feat
	bm, aerr := assemble(c.Src, c.Cfg)
	if aerr != nil {
		if strings.HasSuffix(aerr.Phase, "-panic") {
			return pbt.Outcome{Fail: pbt.Failf("asm-panic", "the assembler panics (%s): %v\n--- source ---\n%s", aerr.Phase, aerr.Err, c.Src)}
		}
		if rejectable != "" {
			lab["rejected:"+rejectable] = true
			return pbt.Outcome{}
		}
		if narrowRomWord(rs, net) && strings.Contains(aerr.Err.Error(), "word size is too small") {
			// a ROM cell is as wide as an instruction word; a CP whose text has no instruction with an immediate
			// operand can have words narrower than a byte, and the assembler says so (creatorbm.go:258)
			lab["rejected:romdata-on-narrow-rom-word"] = true
			return pbt.Outcome{}
		}
		if m.Fuzz {
			return pbt.Outcome{Excluded: "assembler-refuses"}
		}
		return pbt.Outcome{Fail: pbt.Failf("asm-rejects", "the assembler refuses a source of the main domain (%s): %v\n--- source ---\n%s", aerr.Phase, aerr.Err, c.Src)}
	}
	if net == nil {
		// a label defined twice in one section: the text has no meaning the reference could give it
		lab["accepted:dup-label"] = true
		return pbt.Outcome{Excluded: "illformed:dup-label"}
	}
	if rejectable != "" {
		lab["accepted:"+rejectable] = true
	}
	if bm.Inputs != net.NIn || bm.Outputs != net.NOut || len(bm.Processors) != len(rs.CPs) {
		return pbt.Outcome{Fail: pbt.Failf("shape", "machine has %d inputs, %d outputs, %d processors; the source declares %d, %d, %d\n--- source ---\n%s",
			bm.Inputs, bm.Outputs, len(bm.Processors), net.NIn, net.NOut, len(rs.CPs), c.Src)}
	}
	if why := romGuard(bm, rs, net); why != "" {
		return pbt.Outcome{Fail: pbt.Failf("rom-address-outside-data", "%s\n--- source ---\n%s", why, c.Src)}
	}
	env := gen.Env{In: c.In, InGap: c.InGap, OutStall: c.OutStall}
	sim, _, serr := simulate(bm, env, c.Ticks)
	if serr != nil {
		return pbt.Outcome{Fail: pbt.Failf("sim-error", "simulation of the assembled machine fails: %v\n--- source ---\n%s", serr, c.Src)}
	}
	ref := net.run(c.In, c.Ticks+8, 0, false)
	if ref.Stats.Overflow {
		return pbt.Outcome{Excluded: "D1:literal-wider-than-register"}
	}
	if ref.Stats.FellOff {
		return pbt.Outcome{Excluded: "falls-off-the-end"}
	}
	if ref.Stats.RomOutside {
		if m.Fuzz {
			return pbt.Outcome{Excluded: "rom-read-outside-data"}
		}
		return pbt.Outcome{Fail: pbt.Failf("harness:rom-read-outside-data", "a generated program reads a ROM cell that is not a data cell\n--- source ---\n%s", c.Src)}
	}
	if ref.Stats.RomReads > 0 {
		lab["rom-read-executed"] = true
	}
	for k := range ref.Stats.Lits {
		lab["lit:"+k] = true
	}
	for k := range ref.Stats.IOHow {
		lab[k] = true
	}
	for k := range ref.Stats.PseudoKinds {
		lab["pseudo:"+k] = true
	}
	if ref.Stats.MacroInstr > 0 {
		lab["macro:executed"] = true
	}
	maxCmp := 0
	badOut, badIdx := -1, -1
	extra := -1
	for o := 0; o < net.NOut; o++ {
		a, e := sim[o], ref.Out[o]
		n := len(a)
		if len(e) < n {
			n = len(e)
		}
		if n > maxCmp {
			maxCmp = n
		}
		for i := 0; i < n && badOut < 0; i++ {
			if a[i] != e[i] {
				badOut, badIdx = o, i
			}
		}
		if len(a) > len(e) && extra < 0 {
			extra = o
		}
	}
	describe := func() string {
		var b strings.Builder
		for o := 0; o < net.NOut; o++ {
			fmt.Fprintf(&b, "  o%d (%s): source %s\n          machine %s\n", o, net.Chans[net.ExtOut[o]].Name, fmtStream(ref.Out[o], 24), fmtStream(sim[o], 24))
		}
		return b.String()
	}
	if badOut >= 0 || extra >= 0 {
		what := ""
		if badOut >= 0 {
			what = fmt.Sprintf("output o%d differs at position %d: the source says %d, the machine delivers %d", badOut, badIdx, ref.Out[badOut][badIdx], sim[badOut][badIdx])
		} else {
			what = fmt.Sprintf("output o%d: the machine delivers %d values in %d ticks, the source cannot have produced more than %d", extra, len(sim[extra]), c.Ticks, len(ref.Out[extra]))
		}
		if dbUnsized && m.DbUnsized {
			return pbt.Outcome{Fail: pbt.Failf("db:number-without-byte-size", "%s (docinstructions.md: every expression of `db` is one byte, `examplevar db 1, 2, 3`; the assembler takes the width from the notation, so a number written without a size occupies 8 ROM cells, big-endian, and the symbols that follow move)\n%s--- source ---\n%s", what, describe(), c.Src)}
		}
		if leak {
			return pbt.Outcome{Fail: pbt.Failf("macro-lines-shared:iomode-leak", "%s (a macro that contains `mov` to or from a port is expanded in a sync and in an async section; its lines are shared objects and the io mode of the section processed last is applied to both)\n%s--- source ---\n%s", what, describe(), c.Src)}
		}
		if d6 {
			return pbt.Outcome{Fail: pbt.Failf("D6:entry-ignored", "%s (the entry label is not on the first instruction; execution started at ROM address 0)\n%s--- source ---\n%s", what, describe(), c.Src)}
		}
		if len(rs.CPs) > 1 && badOut >= 0 {
			if quirk, detail := triageMultiCP(c, rs, net, ref, bm, badOut, badIdx); quirk {
				lab["C04-handshake-quirk"] = true
				return pbt.Outcome{Excluded: "C04:handshake-quirk(multi-CP only)"}
			} else {
				what += "; triage: " + detail
			}
		}
		sig := "stream-mismatch"
		if badOut < 0 {
			sig = "stream-extra"
		}
		return pbt.Outcome{Fail: pbt.Failf(sig, "%s\n%s--- source ---\n%s", what, describe(), c.Src)}
	}
	// progress: whatever the source delivers in Ticks/slowdown rounds of strict rendezvous execution, the
	// machine must have delivered in Ticks ticks (an instruction of the machine takes one tick, a handshake
	// with the environment at most stall/gap+4, between processors about 5)
	slow := net.run(c.In, c.Ticks/slowdown, 0, true)
	for o := 0; o < net.NOut; o++ {
		if len(sim[o]) < len(slow.Out[o]) {
			sig := "starved"
			switch {
			case leak:
				sig = "macro-lines-shared:iomode-leak"
			case d6:
				sig = "D6:entry-ignored"
			}
			return pbt.Outcome{Fail: pbt.Failf(sig, "output o%d: the machine delivered %d values in %d ticks, the source delivers %d in %d instruction rounds\n%s--- source ---\n%s",
				o, len(sim[o]), c.Ticks, len(slow.Out[o]), c.Ticks/slowdown, describe(), c.Src)}
		}
		if len(slow.Out[o]) > 0 {
			lab["progress-checked"] = true
		}
	}
	if maxCmp < minCompared {
		lab["short"] = true
	}
	nt := ref.Stats.BackTaken >= 1 && ref.Stats.FwdTaken >= 1 && ref.Stats.Pseudo >= 1 && maxCmp >= minCompared
	return pbt.Outcome{NonTrivial: nt}
}

// narrowRomWord: some CP has ROM data and a text without any register load of an immediate (rset), the only
// generated instruction whose operand makes the instruction word at least as wide as a register.
func narrowRomWord(rs *refSource, net *refNet) bool {
	if net == nil {
		return false
	}
	for i, cp := range rs.CPs {
		if cp.RomData == "" {
			continue
		}
		wide := false
		for _, in := range net.Progs[i].Ins {
			if in.Op == "rset" {
				wide = true
			}
		}
		if !wide {
			return true
		}
	}
	return false
}

// cpRank: the assembler numbers the processors in the byte order of their names.
func cpRank(rs *refSource) []int {
	rank := make([]int, len(rs.CPs))
	for i, a := range rs.CPs {
		for _, b := range rs.CPs {
			if b.Name < a.Name {
				rank[i]++
			}
		}
	}
	return rank
}

// shapeLabels classifies the structure of the source: how CPs share text and data sections, and how macros
// that jump to a label of the section using them are spread over the sections.
func shapeLabels(rs *refSource, net *refNet, lab map[string]bool) {
	usesRom := func(p *refProg) bool {
		for _, in := range p.Ins {
			if in.RomSym != "" {
				return true
			}
		}
		return false
	}
	for i, a := range rs.CPs {
		if a.RomData != "" {
			lab["romdata"] = true
			if !usesRom(net.Progs[i]) {
				lab["romdata-unused-by-code"] = true
			}
		}
		for j := i + 1; j < len(rs.CPs); j++ {
			b := rs.CPs[j]
			if a.RomData == "" || b.RomData == "" || !usesRom(net.Progs[i]) {
				continue
			}
			switch {
			case a.RomCode == b.RomCode && a.RomData == b.RomData:
				lab["shared-code-shared-data"] = true
			case a.RomCode != b.RomCode && a.RomData == b.RomData:
				lab["different-code-shared-data"] = true
			case a.RomCode != b.RomCode:
				lab["different-code-different-data"] = true
			default:
				lab["shared-code-different-data"] = true
				da, db := rs.Datas[a.RomData], rs.Datas[b.RomData]
				for _, in := range net.Progs[i].Ins {
					if in.RomSym == "" {
						continue
					}
					va, vb := da.lookup(in.RomSym), db.lookup(in.RomSym)
					if va != nil && vb != nil && va.Off != vb.Off {
						lab["shared-code-different-data-layout"] = true
					}
					if va != nil && vb != nil && fmt.Sprint(va.Bytes) != fmt.Sprint(vb.Bytes) {
						lab["shared-code-different-data-values"] = true
					}
				}
			}
		}
	}
	// macro lines that jump to a label of the using section: per source line of the jump, the instruction index
	// of the label in every section a CP runs
	targets := map[int]map[string]int{}
	for _, p := range net.Progs {
		for line, t := range p.OuterJumps {
			if targets[line] == nil {
				targets[line] = map[string]int{}
			}
			targets[line][p.Section] = t
		}
	}
	for _, bySec := range targets {
		lab["macro-label-operand"] = true
		if len(bySec) < 2 {
			continue
		}
		lab["macro-label-operand-multi-section"] = true
		first, differ := -1, false
		for _, t := range bySec {
			if first < 0 {
				first = t
			} else if t != first {
				differ = true
			}
		}
		if differ {
			lab["macro-label-operand-multi-section-different-index"] = true
		}
	}
}

// romGuard keeps the simulator away from a ROM address outside the data: procbuilder's ro2rri indexes the data
// cells without a range check and the panic of a processor goroutine would take the whole test process down.
// For every `mov rX, rom:<symbol>` of the source (instruction k of its CP) the word k of the machine's program is
// decoded; when it is an rset-like instruction its immediate must point at a data cell and leave the cells of
// the symbol inside the data. Returns a description of the first address that does not.
func romGuard(bm *bondmachine.Bondmachine, rs *refSource, net *refNet) string {
	rank := cpRank(rs)
	for ci, p := range net.Progs {
		if p.Data == nil || rank[ci] >= len(bm.Processors) || bm.Processors[rank[ci]] >= len(bm.Domains) {
			continue
		}
		d := bm.Domains[bm.Processors[rank[ci]]]
		if len(d.Program.Slocs) != len(p.Ins) {
			continue
		}
		dis, err := d.Disassembler()
		if err != nil {
			continue
		}
		lines := strings.Split(strings.TrimRight(dis, "\n"), "\n")
		if len(lines) != len(p.Ins) {
			continue
		}
		for k, in := range p.Ins {
			if in.RomSym == "" {
				continue
			}
			f := strings.Fields(lines[k])
			if len(f) != 3 || !strings.HasPrefix(f[0], "rset") {
				continue
			}
			var a uint64
			if _, err := fmt.Sscanf(f[2], "%d", &a); err != nil {
				continue
			}
			v := p.Data.lookup(in.RomSym)
			code, cells := uint64(len(d.Program.Slocs)), uint64(len(d.Data.Vars))
			if a < code || a+uint64(len(v.Bytes)) > code+cells {
				return fmt.Sprintf("cp %s (processor %d): instruction %d `%s` comes from `mov/rset …, rom:%s` (source line %d); the ROM of the processor has %d instructions followed by %d data cells, the symbol has %d cells: the address is not that of a data symbol (the source puts %s at %d)",
					rs.CPs[ci].Name, rank[ci], k, lines[k], in.RomSym, in.Line, code, cells, len(v.Bytes), in.RomSym, in.Imm)
			}
		}
	}
	return ""
}

func propMain(c Case) pbt.Outcome           { return evalCase(c, modeMain) }
func propKnownD6(c Case) pbt.Outcome        { return evalCase(c, modeKnownD6) }
func propKnownLeak(c Case) pbt.Outcome      { return evalCase(c, modeKnownLeak) }
func propKnownLabelLeak(c Case) pbt.Outcome { return evalCase(c, modeKnownLeak2) }
func propKnownDb(c Case) pbt.Outcome        { return evalCase(c, modeKnownDb) }

const ruleCommon = "generated .basm sources: 1..3 romtext sections (entry directive, 1..3 labels per site, counter-bounded loops, conditional/unconditional forward skips, permuted block chains over j/jmp/jz with label operands; mov/rset/cpy/inc/dec/add/mult/clr/nop/noop; sync IO as mov or i2rw/r2owa, each IO followed by 3 non-IO instructions), literals in dec/0d/0u/0x/0b and sized notations, 0-argument macros (in 1 source of 3 also macros whose body jumps, j or jz, to a label that every section using them defines, at a different instruction index per section), 1..3 CPs (sections shared or unused), in 1 source of 3 also 1..3 romdata sections (symbols declared with db, one byte per expression, order/padding/lengths differing between sections) read with mov rX,rom:<symbol> / inc rX / mov rY,rom:[rX], the CPs that share a text getting the same or different data sections, fan-out 1 bonds CP-CP/BM-CP/CP-BM, registersize in {8,16,32,64}, layout noise (comments, blank lines, tabs, CRLF, meta order); oracle: value streams on every external output equal, prefix-wise, those of a reference interpreter of the text; non-trivial = the interpretation took >=1 backward and >=1 forward jump, executed >=1 pseudo-instruction and >=3 values were compared on some output"

// Props is the main campaign. Props of recorded defects live in PropsKnown (they are expected to fail).
var Props = []*pbt.Entry{
	pbt.Def("streams", ruleCommon+"; macro uses are kept in the shapes macroresolver.go handles (not labelled, not adjacent, not nested, inner labels once per section); 1 section in 40 puts the entry label behind other code and is counted as excluded (D6)",
		genSource(genOpts{Entry: 2}), propMain),
	pbt.Def("macro_shapes", ruleCommon+"; odd macro shapes allowed (adjacent uses, label on a use, nested macros, inner labels used twice, empty bodies, label before the entry directive): accepted outcomes are an assembler error or correct streams",
		genSource(genOpts{Entry: 0, OddMacros: true}), propMain),
}

var PropsKnown = []*pbt.Entry{
	pbt.Def("entry_not_first", ruleCommon+"; the entry label never sits on the first instruction (code that emits a value precedes it): confirms D6, expected to fail with signature D6:entry-ignored",
		genSource(genOpts{Entry: 1, MaxCPs: 1}), propKnownD6),
	pbt.Def("macro_iomode_leak", ruleCommon+"; one macro that outputs with `mov oK, rX` is expanded in the sync section a CP runs and in an async section: confirms the shared-macro-lines defect, expected to fail with signature macro-lines-shared:iomode-leak (each source is assembled up to 10 times: the defect depends on map iteration order)",
		genSource(genOpts{Entry: 0, MaxCPs: 1, Leak: true}), propKnownLeak),
	pbt.Def("label_leak", "a fixed skeleton with generated bodies: a section ends with label X after its last instruction, the next block of the file is a macro M; another section writes X directly on a use of macro N (that label is lost), uses M later and jumps to X: confirms that the jump silently lands on the expansion of M; expected to fail with signature label-leak:trailing-label-captures-jump",
		genLabelLeak, propKnownLabelLeak),
	pbt.Def("db_unsized", "a fixed skeleton with generated values: one romdata section `f db a, b, c` whose numbers are written as plain decimals (the documentation's own example), read back with mov rX,rom:f / mov rY,rom:[rX] / inc rX and sent to o0: confirms that such a number occupies 8 cells instead of one; expected to fail with signature db:number-without-byte-size",
		genDbUnsized, propKnownDb),
}

func TestProps(t *testing.T) { pbt.RunAll(t, "C05", Props) }

// TestKnown runs the sub-campaign whose only job is to confirm the recorded defect D6.
func TestKnown(t *testing.T) { pbt.RunAll(t, "C05", PropsKnown) }

func TestReplay(t *testing.T) {
	pbt.ReplayAll(t, "C05", append(append([]*pbt.Entry(nil), Props...), PropsKnown...))
}

// TestHygiene: thousands of in-process assemblies must not pile up goroutines (every BasmInstance starts
// a bmreqs server; asm.go stops it) nor leave dynamically created opcodes in the process-wide registry.
func TestHygiene(t *testing.T) {
	src := "%section code .romtext iomode:sync\n\tentry start\nstart:\n\tmov r0, 5\nlp:\n\tmov o0, r0\n\tinc r0\n\tnop\n\tnop\n\tj lp\n%endsection\n" +
		"%meta cpdef cpu romcode: code\n%meta ioatt out0 cp: cpu, index:0, type:output\n%meta ioatt out0 cp: bm, index:0, type:output\n%meta bmdef global registersize:8\n"
	run := func(n int) {
		for i := 0; i < n; i++ {
			cfg := []string{cfgNoDyn, cfgMinWord, cfgDefault}[i%3]
			bm, err := assemble(src, cfg)
			if cfg == cfgDefault {
				if err == nil {
					t.Fatalf("default configuration accepted mov <reg>, <literal>")
				}
				continue
			}
			if err != nil {
				t.Fatalf("%s: %v", cfg, err)
			}
			out, _, serr := simulate(bm, gen.Env{}, 40)
			if serr != nil || len(out) != 1 || len(out[0]) < 3 || out[0][0] != 5 || out[0][1] != 6 {
				t.Fatalf("%s: streams %v err %v", cfg, out, serr)
			}
		}
	}
	settle := func() int {
		n := runtime.NumGoroutine()
		for i := 0; i < 50; i++ {
			runtime.Gosched()
			runtime.GC()
			if m := runtime.NumGoroutine(); m < n {
				n = m
			}
		}
		return n
	}
	run(10)
	g0 := settle()
	ops := pristineOpcodes
	run(150)
	g1 := settle()
	if g1 > g0+4 {
		t.Fatalf("goroutines grew from %d to %d over 150 assemblies and simulations", g0, g1)
	}
	if len(procbuilderAllopcodes()) != ops {
		t.Fatalf("opcode registry grew from %d to %d", ops, len(procbuilderAllopcodes()))
	}
}
