// C14 — compiled quantum circuits implement the circuit's unitary.
//
// Generated circuits are driven through the public path (a bmline.BasmBody with
// meta "qbits" and lines built by bmline.Text2BasmLine, handed to
// BmQSimulator.QasmToBmMatrices, then RunSoftwareSimulation); the expected
// unitary comes from ref.go.
//
// prop is a pure function of the case; generated cases with a `nextop` line are counted and not run
// (out of domain, see prop).
package c14

import (
	"fmt"
	"math"
	"sort"
	"strings"
	"testing"

	"github.com/BondMachineHQ/BondMachine/pkg/bmline"
	"github.com/BondMachineHQ/BondMachine/pkg/bmmatrix"
	"github.com/BondMachineHQ/BondMachine/pkg/bmqsim"
	"pgregory.net/rapid"
	"verifharness/pbt"
)

// ---------------------------------------------------------------------------
// generator

var (
	fixed1, fixed2, param1 []string // alias names by shape, sorted
	namePool               = []string{"q0", "q1", "q2", "q3", "q4", "a", "b", "anc", "Q7", "x1"}
)

func init() {
	for a, inf := range Aliases {
		switch {
		case inf.Param:
			param1 = append(param1, a)
		case inf.Arity == 2:
			fixed2 = append(fixed2, a)
		default:
			fixed1 = append(fixed1, a)
		}
	}
	sort.Strings(fixed1)
	sort.Strings(fixed2)
	sort.Strings(param1)
}

var specialAngles = []string{"0", "1.5707963267948966", "3.141592653589793", "-1.0471975511965976"}

func fmtAngle(x float64) string { return fmt.Sprintf("%.6f", x) }

func genNames(t *rapid.T, n int) []string {
	if rapid.IntRange(0, 3).Draw(t, "plainnames") != 0 {
		return append([]string(nil), namePool[:n]...)
	}
	p := rapid.Permutation(namePool).Draw(t, "names")
	return append([]string(nil), p[:n]...)
}

func genGate(t *rapid.T, n int) Gate {
	var g Gate
	// shape: 0 fixed 1q, 1 parametric 1q, 2 two-qubit (favoured when possible)
	shapes := []int{0, 0, 1}
	if n >= 2 {
		shapes = []int{0, 0, 1, 2, 2, 2}
	}
	switch rapid.SampledFrom(shapes).Draw(t, "shape") {
	case 0:
		g.Op = rapid.SampledFrom(fixed1).Draw(t, "op1")
		g.Q = []int{rapid.IntRange(0, n-1).Draw(t, "q")}
	case 1:
		g.Op = rapid.SampledFrom(param1).Draw(t, "opp")
		g.Q = []int{rapid.IntRange(0, n-1).Draw(t, "q")}
		if k := rapid.IntRange(0, len(specialAngles)+1).Draw(t, "anglekind"); k < len(specialAngles) {
			g.Angle = specialAngles[k]
		} else {
			g.Angle = fmtAngle(rapid.Float64Range(-7, 7).Draw(t, "angle"))
		}
	case 2:
		g.Op = rapid.SampledFrom(fixed2).Draw(t, "op2")
		a := rapid.IntRange(0, n-1).Draw(t, "qa")
		b := rapid.IntRange(0, n-2).Draw(t, "qb")
		if b >= a {
			b++
		}
		g.Q = []int{a, b}
	}
	if rapid.IntRange(0, 11).Draw(t, "upper") == 0 {
		g.Op = strings.ToUpper(g.Op) // MatrixFromOp lower-cases the operation
	}
	return g
}

// genPacked builds the gate list layer by layer: every layer is a random permutation of the
// qubits chopped into two-qubit and single-qubit gates, so that several multi-qubit gates share
// one emitted matrix (free-form sequences rarely produce that).
func genPacked(t *rapid.T, n, k int) []Gate {
	var gs []Gate
	idx := make([]int, n)
	for i := range idx {
		idx[i] = i
	}
	for len(gs) < k {
		perm := rapid.Permutation(idx).Draw(t, "layerperm")
		for i := 0; i < n && len(gs) < k; {
			g := genGate(t, n) // draws alias/angle/case; the qubits are overwritten below
			if len(g.Q) == 2 && i+1 < n {
				g.Q = []int{perm[i], perm[i+1]}
				i += 2
			} else if len(g.Q) == 2 {
				break // no room for a second argument in this layer
			} else {
				g.Q = []int{perm[i]}
				i++
			}
			gs = append(gs, g)
		}
	}
	return gs
}

func gen(t *rapid.T) Case {
	mode := rapid.SampledFrom([]string{"packed", "packed", "packed", "packed", "free", "free", "free", "free", "free", "free+nextop"}).Draw(t, "mode")
	sizes := []int{1, 2, 2, 3, 3, 3, 4, 4, 4, 5, 5}
	if mode == "packed" {
		sizes = []int{5, 4, 5, 4, 3, 2} // two two-qubit gates in one layer need n >= 4
	}
	n := rapid.SampledFrom(sizes).Draw(t, "n")
	c := Case{Qubits: genNames(t, n), Zero: rapid.SampledFrom([]bool{false, false, false, true}).Draw(t, "zero")}
	k := rapid.IntRange(1, 12).Draw(t, "len")
	if mode == "packed" {
		c.Gates = genPacked(t, n, k)
		return c
	}
	for i := 0; i < k; i++ {
		g := genGate(t, n)
		if mode == "free+nextop" && i > 0 {
			g.Sep = rapid.SampledFrom([]bool{false, false, true}).Draw(t, "sep")
		}
		c.Gates = append(c.Gates, g)
	}
	return c
}

// ---------------------------------------------------------------------------
// case -> program

func validate(c Case) error {
	n := len(c.Qubits)
	if n < 1 || n > 5 {
		return fmt.Errorf("%d qubits", n)
	}
	seen := map[string]bool{}
	for _, q := range c.Qubits {
		if q == "" || seen[q] || strings.ContainsAny(q, ":-, \t") {
			return fmt.Errorf("bad qubit name %q", q)
		}
		if _, isOp := Aliases[strings.ToLower(q)]; isOp {
			return fmt.Errorf("qubit name %q is an operation", q)
		}
		seen[q] = true
	}
	if len(c.Gates) < 1 || len(c.Gates) > 64 {
		return fmt.Errorf("%d gates", len(c.Gates))
	}
	for i, g := range c.Gates {
		inf, ok := Aliases[strings.ToLower(g.Op)]
		if !ok {
			return fmt.Errorf("gate %d: alias %q", i, g.Op)
		}
		if len(g.Q) != inf.Arity {
			return fmt.Errorf("gate %d: %d qubit arguments for %s", i, len(g.Q), g.Op)
		}
		used := map[int]bool{}
		for _, q := range g.Q {
			if q < 0 || q >= n || used[q] {
				return fmt.Errorf("gate %d: qubit arguments %v", i, g.Q)
			}
			used[q] = true
		}
		if inf.Param == (g.Angle == "") {
			return fmt.Errorf("gate %d: angle %q for %s", i, g.Angle, g.Op)
		}
		if seen[g.Angle] {
			return fmt.Errorf("gate %d: angle %q is a qubit name", i, g.Angle)
		}
	}
	return nil
}

// Program renders the circuit as the lines of a .bmq block (for messages).
func (c Case) Program() string {
	var b strings.Builder
	fmt.Fprintf(&b, "qbits %s\n", strings.Join(c.Qubits, ","))
	for _, l := range c.lines() {
		parts := strings.Split(l, "::")
		fmt.Fprintf(&b, "%s %s\n", parts[0], strings.Join(parts[1:], ","))
	}
	return b.String()
}

// lines are the Text2BasmLine inputs (operation::arg::arg).
func (c Case) lines() []string {
	var ls []string
	if c.Zero {
		ls = append(ls, "zero::"+strings.Join(c.Qubits, "::"))
	}
	for _, g := range c.Gates {
		if g.Sep {
			ls = append(ls, "nextop")
		}
		l := g.Op
		for _, q := range g.Q {
			l += "::" + c.Qubits[q]
		}
		if g.Angle != "" {
			l += "::" + g.Angle
		}
		ls = append(ls, l)
	}
	return ls
}

func (c Case) body() (*bmline.BasmBody, error) {
	body := new(bmline.BasmBody)
	body.BasmMeta = body.SetMeta("qbits", strings.Join(c.Qubits, ":"))
	for _, l := range c.lines() {
		bl, err := bmline.Text2BasmLine(l)
		if err != nil {
			return nil, err
		}
		body.Lines = append(body.Lines, bl)
	}
	return body, nil
}

// layers reproduces the documented splitting rule ("a new matrix starts
// whenever a qubit is reused", or at a nextop) — used for labels and for the
// exclusion predicates only, never for the expected value.
func (c Case) layers() [][]Gate {
	var out [][]Gate
	var cur []Gate
	used := map[int]bool{}
	for _, g := range c.Gates {
		clash := g.Sep
		for _, q := range g.Q {
			if used[q] {
				clash = true
			}
		}
		if clash && len(cur) > 0 {
			out = append(out, cur)
			cur, used = nil, map[int]bool{}
		}
		cur = append(cur, g)
		for _, q := range g.Q {
			used[q] = true
		}
	}
	if len(cur) > 0 {
		out = append(out, cur)
	}
	return out
}

// ---------------------------------------------------------------------------
// numeric helpers (own arithmetic in complex128 over the emitted float32 data)

func toCmat(m *bmmatrix.BmMatrixSquareComplex, dim int) (cmat, error) {
	if m == nil {
		return nil, fmt.Errorf("nil matrix")
	}
	if m.N != dim || len(m.Data) != dim {
		return nil, fmt.Errorf("matrix is %d (rows %d), expected %d", m.N, len(m.Data), dim)
	}
	r := newCmat(dim)
	for i := range m.Data {
		if len(m.Data[i]) != dim {
			return nil, fmt.Errorf("row %d has %d entries, expected %d", i, len(m.Data[i]), dim)
		}
		for j, z := range m.Data[i] {
			r[i][j] = complex(float64(z.Real), float64(z.Imag))
		}
	}
	return r, nil
}

func mul(a, b cmat) cmat {
	n := len(a)
	c := newCmat(n)
	for i := 0; i < n; i++ {
		for k := 0; k < n; k++ {
			if a[i][k] == 0 {
				continue
			}
			for j := 0; j < n; j++ {
				c[i][j] += a[i][k] * b[k][j]
			}
		}
	}
	return c
}

func dagger(a cmat) cmat {
	n := len(a)
	c := newCmat(n)
	for i := 0; i < n; i++ {
		for j := 0; j < n; j++ {
			c[j][i] = complex(real(a[i][j]), -imag(a[i][j]))
		}
	}
	return c
}

// maxDiff returns the largest entrywise |a-b| and where.
func maxDiff(a, b cmat) (float64, int, int) {
	worst, wi, wj := 0.0, 0, 0
	for i := range a {
		for j := range a[i] {
			d := a[i][j] - b[i][j]
			if m := math.Hypot(real(d), imag(d)); m > worst || math.IsNaN(m) {
				worst, wi, wj = m, i, j
				if math.IsNaN(m) {
					return math.Inf(1), i, j
				}
			}
		}
	}
	return worst, wi, wj
}

func show(m cmat) string {
	if len(m) > 8 {
		return fmt.Sprintf("(%dx%d matrix not printed)\n", len(m), len(m))
	}
	return m.String()
}

// ---------------------------------------------------------------------------
// property

const tolUnit = 1e-4 // per emitted matrix / per circuit line, float32 data

// mechanism signatures of the defects recorded on the unchanged tree
const (
	sigDisplaced = "D-C14-displaced-arg"
)

func prop(c Case) pbt.Outcome {
	if err := validate(c); err != nil {
		return pbt.Outcome{Excluded: "invalid-case"}
	}
	n := len(c.Qubits)
	dim := 1 << n
	out := pbt.Outcome{}
	labels := map[string]bool{fmt.Sprintf("n=%d", n): true}
	for _, g := range c.Gates {
		inf := Aliases[strings.ToLower(g.Op)]
		labels["gate:"+strings.ToLower(g.Op)] = true
		labels["ctor:"+string(inf.Ctor)] = true
		if g.Op != strings.ToLower(g.Op) {
			labels["uppercase-op"] = true
		}
		if g.Sep {
			labels["nextop"] = true
		}
		if inf.Arity == 2 {
			d := g.Q[1] - g.Q[0]
			if d < 0 {
				d = -d
				labels["reversed"] = true
			}
			labels[fmt.Sprintf("dist=%d", d)] = true
			if d > 1 || g.Q[0] > g.Q[1] {
				out.NonTrivial = true
			}
		}
	}
	if c.Zero {
		labels["zero-line"] = true
	}
	ls := c.layers()
	labels[fmt.Sprintf("layers=%s", bucket(len(ls)))] = true
	for _, l := range ls {
		two := 0
		for _, g := range l {
			if len(g.Q) == 2 {
				two++
			}
		}
		if two >= 2 {
			labels["layer-with-2+two-qubit-gates"] = true
		}
	}
	for l := range labels {
		out.Labels = append(out.Labels, l)
	}
	sort.Strings(out.Labels)

	if hasSep(c) {
		// `nextop` is an undocumented separator (it appears only in bmqsim.go), not a gate of the
		// supported set; QasmToBmMatrices does not return on it (the line is never consumed).
		// Out of the property's domain: counted, not executed. Recorded in DESIGN.md as a side observation.
		out.Excluded = "out-of-domain:nextop-line"
		return out
	}
	// A layer in which a two-qubit gate is reached after an earlier two-qubit gate of the same layer
	// moved one of its arguments used to be compiled wrongly (fixed in /repo, see known_findings.json);
	// the class is labelled so that the evidence shows it is being generated.
	if displacedArg(c) {
		out.Labels = append(out.Labels, "displaced-arg-region")
	}
	res := pbt.Guard(func() pbt.Outcome { return pbt.Outcome{Fail: judge(c, n, dim)} })
	if res.Fail != nil && displacedArg(c) {
		res.Fail = pbt.Failf(sigDisplaced, "[%s] %s", res.Fail.Sig, res.Fail.Msg)
	}
	out.Fail = res.Fail
	return out
}

// displacedArg recognises the input class of the (fixed) defect sigDisplaced. Within one
// emitted matrix (layer) BmMatrixFromOperation walks the tensor positions left to right and,
// for a two-qubit gate, swaps its arguments into the next two positions, remembering the
// swaps. It addresses the arguments by their *declared* index, which is their position only
// as long as no earlier swap of the same layer has moved them. The predicate replays the
// intended bookkeeping (positions only, no numerics) and reports whether some two-qubit gate
// is reached while one of its arguments is away from its declared position.
func displacedArg(c Case) bool {
	n := len(c.Qubits)
	for _, layer := range c.layers() {
		local := make([]int, n) // local[pos] = declared index of the qubit at that tensor position
		for i := range local {
			local[i] = i
		}
		for q := 0; q < n; q++ {
			var g *Gate
			for i := range layer {
				for _, a := range layer[i].Q {
					if a == local[q] {
						g = &layer[i]
					}
				}
				if g != nil {
					break
				}
			}
			if g == nil || len(g.Q) < 2 {
				continue
			}
			for _, a := range g.Q {
				if local[a] != a {
					return true
				}
			}
			for i, a := range g.Q {
				for p := range local {
					if local[p] == a {
						local[q+i], local[p] = local[p], local[q+i]
						break
					}
				}
			}
			q += len(g.Q) - 1
		}
	}
	return false
}

func bucket(k int) string {
	switch {
	case k <= 3:
		return fmt.Sprint(k)
	case k <= 6:
		return "4-6"
	default:
		return "7+"
	}
}

// judge runs the code under test on the circuit and compares with the reference.
func judge(c Case, n, dim int) *pbt.Failure {
	uref, err := refUnitary(c)
	if err != nil {
		return pbt.Failf("harness", "reference: %v", err)
	}
	body, err := c.body()
	if err != nil {
		return pbt.Failf("harness", "Text2BasmLine: %v", err)
	}
	sim := newSim()
	mats, err := sim.QasmToBmMatrices(body)
	hung := false
	if hung {
		return pbt.Failf("nextop-hang", "QasmToBmMatrices does not return within %v on a circuit with a `nextop` line (the loop never advances past it)\n%s", watchdog, c.Program())
	}
	if err != nil {
		return pbt.Failf("error", "QasmToBmMatrices rejects an in-domain circuit: %v\n%s", err, c.Program())
	}
	if sim.QbitsNum() != n || sim.StateSize() != dim {
		return pbt.Failf("size", "simulator reports %d qubits / state size %d, expected %d / %d", sim.QbitsNum(), sim.StateSize(), n, dim)
	}
	tol := tolUnit * float64(len(c.Gates))
	prod := identity(dim)
	for k, m := range mats {
		cm, err := toCmat(m, dim)
		if err != nil {
			return pbt.Failf("shape", "emitted matrix %d: %v\n%s", k, err, c.Program())
		}
		// each emitted matrix is unitary
		if d, i, j := maxDiff(mul(cm, dagger(cm)), identity(dim)); d > tolUnit {
			return pbt.Failf("not-unitary", "emitted matrix %d: (M*M^dagger)[%d][%d] differs from identity by %.3g (> %.1g)\n%s", k, i, j, d, tolUnit, c.Program())
		}
		prod = mul(cm, prod)
	}
	if d, i, j := maxDiff(prod, uref); d > tol {
		return pbt.Failf("product", "product of the %d emitted matrices differs from U_ref at [%d][%d]: got %s want %s (|diff| %.3g > tol %.3g)\ncircuit:\n%sexpected:\n%sactual:\n%s",
			len(mats), i, j, fmtC(prod[i][j]), fmtC(uref[i][j]), d, tol, c.Program(), show(uref), show(prod))
	}
	// software simulation: every basis state goes to the corresponding column of U_ref
	sim.Mtx = mats
	sim.Inputs = make([]bmqsim.StateArray, dim)
	for k := 0; k < dim; k++ {
		v := make([]bmmatrix.Complex32, dim)
		v[k] = bmmatrix.Complex32{Real: 1}
		sim.Inputs[k] = bmqsim.StateArray{Vector: v}
	}
	if err := sim.RunSoftwareSimulation(); err != nil {
		return pbt.Failf("sim-error", "RunSoftwareSimulation: %v\n%s", err, c.Program())
	}
	if len(sim.Outputs) != dim {
		return pbt.Failf("sim-shape", "%d outputs for %d inputs", len(sim.Outputs), dim)
	}
	for k := 0; k < dim; k++ {
		o := sim.Outputs[k].Vector
		if len(o) != dim {
			return pbt.Failf("sim-shape", "output %d has %d amplitudes, expected %d", k, len(o), dim)
		}
		for j := 0; j < dim; j++ {
			got := complex(float64(o[j].Real), float64(o[j].Imag))
			d := got - uref[j][k]
			if m := math.Hypot(real(d), imag(d)); !(m <= tol) {
				return pbt.Failf("sim", "software simulation of basis state %d: amplitude %d is %s, column of U_ref has %s (|diff| %.3g > tol %.3g)\n%s",
					k, j, fmtC(got), fmtC(uref[j][k]), m, tol, c.Program())
			}
		}
	}
	return nil
}

func newSim() *bmqsim.BmQSimulator {
	sim := new(bmqsim.BmQSimulator)
	sim.BmQSimulatorInit()
	return sim
}

func hasSep(c Case) bool {
	for _, g := range c.Gates {
		if g.Sep {
			return true
		}
	}
	return false
}

const watchdog = 0

const rule = "n in 1..5 named qubits (first declared = most significant); 1..12 gates over every alias of bmqsim.MatrixFromOp " +
	"(h hadamard x paulix y pauliy z pauliz s p v sx t | cx cnot xor xnor cz cphase csign cpf dcnot swap iswap | phase ph r rx ry rz with an angle from " +
	"{0, pi/2, pi, -pi/3, random in [-7,7]}), any letter case, distinct qubit arguments in any order and at any distance, optional README-style `zero` line, " +
	"optional `nextop` separators; oracle = own textbook tables embedded by bit manipulation (complex128); checks: product of emitted matrices = U_ref entrywise within " +
	"1e-4*len(gates), every emitted matrix M has M*M^dagger = I within 1e-4, RunSoftwareSimulation maps every basis state to the column of U_ref within 1e-4*len(gates); " +
	"global phase not quotiented; non-trivial = at least one two-qubit gate whose arguments are non-adjacent or in reversed order; distinct = distinct case JSON; " +
	"excluded (counted, recorded defects): D-C14-nextop-hang = circuit contains a `nextop` line (not executed: the call never returns), " +
	"D-C14-displaced-arg = a layer reaches a two-qubit gate after an earlier two-qubit gate of the same layer moved one of its arguments (executed; excluded only when it fails)"

var Props = []*pbt.Entry{
	pbt.Def("circuit", rule, gen, prop),
}

// placements is fed by TestExhaustive (hand-rolled loop); it is not in Props so that
// TestProps does not sample it again, but it is known to TestReplay.
var placements = pbt.Def("placements",
	"bounded-exhaustive: for n in 1..5 declared qubits, one single-gate circuit for every alias of MatrixFromOp on every qubit "+
		"(parametric aliases with each angle of {0, pi/2, pi, -pi/3, -4.2}) and for every two-qubit alias on every ordered pair of distinct qubits; "+
		"same oracle and tolerances as entry circuit; non-trivial = the two arguments are non-adjacent or reversed",
	func(t *rapid.T) Case { return rapid.SampledFrom(allPlacements()).Draw(t, "placement") }, prop)

func allPlacements() []Case {
	var cs []Case
	angles := append(append([]string(nil), specialAngles...), "-4.2")
	for n := 1; n <= 5; n++ {
		names := namePool[:n]
		for _, a := range fixed1 {
			for q := 0; q < n; q++ {
				cs = append(cs, Case{Qubits: names, Gates: []Gate{{Op: a, Q: []int{q}}}})
			}
		}
		for _, a := range param1 {
			for _, ang := range angles {
				for q := 0; q < n; q++ {
					cs = append(cs, Case{Qubits: names, Gates: []Gate{{Op: a, Q: []int{q}, Angle: ang}}})
				}
			}
		}
		for _, a := range fixed2 {
			for qa := 0; qa < n; qa++ {
				for qb := 0; qb < n; qb++ {
					if qa != qb {
						cs = append(cs, Case{Qubits: names, Gates: []Gate{{Op: a, Q: []int{qa, qb}}}})
					}
				}
			}
		}
	}
	return cs
}

func TestProps(t *testing.T) { pbt.RunAll(t, "C14", Props) }
func TestReplay(t *testing.T) {
	pbt.ReplayAll(t, "C14", append(append([]*pbt.Entry(nil), Props...), placements))
}

// TestExhaustive enumerates every placement once (no rapid, no sharding needed: ~2000 circuits).
func TestExhaustive(t *testing.T) {
	pbt.RunAll(t, "C14", nil) // sets the property id and registers the stats flush
	cs := allPlacements()
	bad := 0
	for _, c := range cs {
		c := c
		out := pbt.Guard(func() pbt.Outcome { return prop(c) })
		pbt.Observe(placements, c, out)
		if out.Excluded != "" {
			t.Errorf("placement excluded (%s): %s", out.Excluded, c.Program())
		}
		if out.Fail != nil {
			bad++
			path := pbt.WriteFail(fmt.Sprintf("placements_%d", bad), c, out.Fail)
			t.Errorf("FAIL placements: %s (sig=%q) replay=%s", out.Fail.Msg, out.Fail.Sig, path)
		}
	}
	pbt.Extra("placements", "enumerated", len(cs))
	t.Logf("placements enumerated: %d, failures: %d", len(cs), bad)
}
