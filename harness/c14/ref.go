// Reference semantics for C14, written from textbook definitions. Nothing in
// this file calls pkg/bmmatrix or pkg/bmqsim: the expected unitary is computed
// with complex128 arithmetic by acting on computational-basis states with bit
// manipulation.
//
// Naming. The alias table of bmqsim.MatrixFromOp and the constructor names in
// pkg/bmmatrix (Hadamard, PauliX/X, PauliY/Y, PauliZ/Z, S/P, V/Sx, T, CNot/CX/XOR,
// XNor, CZ/CPF/CSign/Cphase, Dcnot, Swap, Iswap, GlobalPhase, PhaseShift, RX, RY, RZ)
// follow the table of the "Quantum logic gate" article (Phase = "S, P";
// sqrt(X) = "V, SX"; controlled-Z = "CZ, CPF, CSIGN, CPHASE"; CNOT = "CX, XOR";
// "DCNOT"; global phase "Ph(d)"; phase shift "P(phi)" a.k.a. R_phi). The repository
// has no per-gate documentation (cmd/bmqsim/README.md only shows `h` and `cx` in
// the Bell-state example), so every entry below is keyed by the *constructor*
// the alias is routed to and carries that constructor name's standard meaning.
// In particular the alias `p` is routed to bmmatrix.S (whose synonym
// constructor is bmmatrix.P): it is the fixed S gate, not P(phi); the
// parametric phase shift is the alias `r`, and `phase`/`ph` is the global
// phase e^{i d}*I acting on the named qubit.
//
// Qubit order. The first declared qubit is the most significant bit of the
// basis-state index (anchor "qbits / qbitsNum" of the property record; it is
// also what a left-to-right Kronecker product over the declared qubits
// gives). For a two-qubit gate the 4x4 table is indexed by
// 2*bit(first argument)+bit(second argument); for the controlled gates the
// first argument is the control (the README's Bell example `h q0; cx q0,q1`
// mapping |00> to (|00>+|11>)/sqrt2 fixes that the control of `cx a,b` is a).
package c14

import (
	"fmt"
	"math"
	"math/cmplx"
	"strconv"
	"strings"
)

// Ctor is the bmmatrix constructor an alias is routed to by MatrixFromOp.
type Ctor string

type aliasInfo struct {
	Ctor  Ctor
	Arity int  // number of qubit arguments
	Param bool // takes one trailing angle argument
}

// Aliases is every operation name accepted by bmqsim.MatrixFromOp that denotes a
// gate (the pseudo-operations zero/input/nextop are handled separately).
var Aliases = map[string]aliasInfo{
	"h": {"Hadamard", 1, false}, "hadamard": {"Hadamard", 1, false},
	"x": {"PauliX", 1, false}, "paulix": {"PauliX", 1, false},
	"y": {"PauliY", 1, false}, "pauliy": {"PauliY", 1, false},
	"z": {"PauliZ", 1, false}, "pauliz": {"PauliZ", 1, false},
	"s": {"S", 1, false}, "p": {"S", 1, false},
	"v": {"Sx", 1, false}, "sx": {"Sx", 1, false},
	"t":  {"T", 1, false},
	"cx": {"CNot", 2, false}, "cnot": {"CNot", 2, false}, "xor": {"CNot", 2, false},
	"xnor": {"XNor", 2, false},
	"cz":   {"Cphase", 2, false}, "cphase": {"Cphase", 2, false}, "csign": {"Cphase", 2, false}, "cpf": {"Cphase", 2, false},
	"dcnot": {"Dcnot", 2, false},
	"swap":  {"Swap", 2, false},
	"iswap": {"Iswap", 2, false},
	"phase": {"GlobalPhase", 1, true}, "ph": {"GlobalPhase", 1, true},
	"r":  {"PhaseShift", 1, true},
	"rx": {"RX", 1, true},
	"ry": {"RY", 1, true},
	"rz": {"RZ", 1, true},
}

type cmat [][]complex128

func newCmat(n int) cmat {
	m := make(cmat, n)
	for i := range m {
		m[i] = make([]complex128, n)
	}
	return m
}

func identity(n int) cmat {
	m := newCmat(n)
	for i := range m {
		m[i][i] = 1
	}
	return m
}

// perm4 builds the 4x4 permutation matrix of a classical reversible map on
// two bits (a = first argument, b = second argument).
func perm4(f func(a, b int) (int, int)) cmat {
	m := newCmat(4)
	for a := 0; a < 2; a++ {
		for b := 0; b < 2; b++ {
			na, nb := f(a, b)
			m[2*na+nb][2*a+b] = 1
		}
	}
	return m
}

// gateTable returns the textbook matrix of a constructor (theta ignored for
// the fixed gates).
func gateTable(c Ctor, theta float64) (cmat, error) {
	r := 1 / math.Sqrt2
	e := func(phi float64) complex128 { return cmplx.Exp(complex(0, phi)) }
	co, si := math.Cos(theta/2), math.Sin(theta/2)
	switch c {
	case "Hadamard":
		return cmat{{complex(r, 0), complex(r, 0)}, {complex(r, 0), complex(-r, 0)}}, nil
	case "PauliX":
		return cmat{{0, 1}, {1, 0}}, nil
	case "PauliY":
		return cmat{{0, -1i}, {1i, 0}}, nil
	case "PauliZ":
		return cmat{{1, 0}, {0, -1}}, nil
	case "S": // phase gate, sqrt(Z)
		return cmat{{1, 0}, {0, 1i}}, nil
	case "Sx": // sqrt(X) = V
		return cmat{{0.5 + 0.5i, 0.5 - 0.5i}, {0.5 - 0.5i, 0.5 + 0.5i}}, nil
	case "T": // pi/8 gate, sqrt(S)
		return cmat{{1, 0}, {0, e(math.Pi / 4)}}, nil
	case "GlobalPhase": // Ph(d) = e^{id} I
		return cmat{{e(theta), 0}, {0, e(theta)}}, nil
	case "PhaseShift": // P(phi) = diag(1, e^{i phi})
		return cmat{{1, 0}, {0, e(theta)}}, nil
	case "RX": // exp(-i theta X/2)
		return cmat{{complex(co, 0), complex(0, -si)}, {complex(0, -si), complex(co, 0)}}, nil
	case "RY": // exp(-i theta Y/2)
		return cmat{{complex(co, 0), complex(-si, 0)}, {complex(si, 0), complex(co, 0)}}, nil
	case "RZ": // exp(-i theta Z/2)
		return cmat{{e(-theta / 2), 0}, {0, e(theta / 2)}}, nil
	case "CNot": // first argument controls, second is flipped
		return perm4(func(a, b int) (int, int) { return a, b ^ a }), nil
	case "XNor": // second := NOT(first XOR second)
		return perm4(func(a, b int) (int, int) { return a, 1 ^ a ^ b }), nil
	case "Cphase": // controlled-Z
		m := identity(4)
		m[3][3] = -1
		return m, nil
	case "Dcnot": // CNOT(first->second) followed by CNOT(second->first)
		return perm4(func(a, b int) (int, int) { b ^= a; a ^= b; return a, b }), nil
	case "Swap":
		return perm4(func(a, b int) (int, int) { return b, a }), nil
	case "Iswap":
		m := perm4(func(a, b int) (int, int) { return b, a })
		m[1][2], m[2][1] = 1i, 1i
		return m, nil
	}
	return nil, fmt.Errorf("no reference table for constructor %q", c)
}

// applyGate replaces every column v of u by G_embedded*v, where G acts on the
// qubits qs (declared indices, 0 = most significant) of an n-qubit register.
func applyGate(u cmat, n int, g cmat, qs []int) {
	dim := 1 << n
	k := len(qs)
	pos := make([]int, k) // bit position of each argument
	for i, q := range qs {
		pos[i] = n - 1 - q
	}
	sub := func(j int) int { // index into g built from the argument bits of j
		s := 0
		for i := 0; i < k; i++ {
			s = s<<1 | (j>>pos[i])&1
		}
		return s
	}
	with := func(j, s int) int { // j with the argument bits replaced by s
		for i := 0; i < k; i++ {
			bit := (s >> (k - 1 - i)) & 1
			j = j&^(1<<pos[i]) | bit<<pos[i]
		}
		return j
	}
	out := make([]complex128, dim)
	for col := 0; col < dim; col++ {
		for j := range out {
			out[j] = 0
		}
		for j := 0; j < dim; j++ {
			a := u[j][col]
			if a == 0 {
				continue
			}
			c := sub(j)
			for r := 0; r < 1<<k; r++ {
				if g[r][c] != 0 {
					out[with(j, r)] += g[r][c] * a
				}
			}
		}
		for j := 0; j < dim; j++ {
			u[j][col] = out[j]
		}
	}
}

// refUnitary is U_ref(c): gates applied to the named qubits in program order.
func refUnitary(c Case) (cmat, error) {
	n := len(c.Qubits)
	u := identity(1 << n)
	for i, g := range c.Gates {
		info, ok := Aliases[strings.ToLower(g.Op)]
		if !ok {
			return nil, fmt.Errorf("gate %d: unknown alias %q", i, g.Op)
		}
		theta := 0.0
		if info.Param {
			v, err := strconv.ParseFloat(g.Angle, 64)
			if err != nil {
				return nil, fmt.Errorf("gate %d: angle %q: %v", i, g.Angle, err)
			}
			theta = v
		}
		tab, err := gateTable(info.Ctor, theta)
		if err != nil {
			return nil, err
		}
		applyGate(u, n, tab, g.Q)
	}
	return u, nil
}

func fmtC(z complex128) string { return fmt.Sprintf("%.4f%+.4fi", real(z), imag(z)) }

func (m cmat) String() string {
	var b strings.Builder
	for _, row := range m {
		b.WriteString("[")
		for j, z := range row {
			if j > 0 {
				b.WriteString(" ")
			}
			b.WriteString(fmtC(z))
		}
		b.WriteString("]\n")
	}
	return b.String()
}
