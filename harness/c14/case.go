// Case types of C14 (JSON-serialisable; shared by the reference in ref.go and the tests).
package c14

// Gate is one circuit line.
type Gate struct {
	Op    string // operation text exactly as written in the circuit (any case)
	Q     []int  // qubit arguments as indices into Case.Qubits, in argument order, distinct
	Angle string // exact text of the angle argument ("" for the fixed gates)
	Sep   bool   // a `nextop` line is placed before this gate
}

// Case is a circuit.
type Case struct {
	Qubits []string // declared qubit names, first = most significant
	Zero   bool     // the README-style `zero <all qubits>` line opens the circuit
	Gates  []Gate
	// Probe: do not exclude the recorded defect classes; evaluate and report them with
	// their signature (used by the replay files under known/, never generated).
	Probe bool
}
