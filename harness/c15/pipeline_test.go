// C15 (b) — Bondmachine.SinglePipelineSimulate: the library's own user of the rule machinery. It accepts no rule
// list; it writes `absolute:0:set:iK:<value>` for every input value it is given and `onexit:show:oK:<type>` for every
// output, runs until the last output is valid, and returns what the on-exit rules showed. So this path honours exactly
// two rule kinds, and the check is: the values come out as a machine fed those inputs at tick 0 (valid raised) holds them
// on its outputs at the moment the last output turns valid, once each, in output order.
package c15

import (
	"fmt"
	"strconv"

	"github.com/BondMachineHQ/BondMachine/pkg/bondmachine"
	"pgregory.net/rapid"
	"verifharness/pbt"
)

type PipeCase struct {
	M        Mach
	Inputs   []string // decimal literals, one per external input (possibly fewer than the machine has)
	DataType string   // display type of every output but the last (the last is always shown unsigned)
}

func genPipe(t *rapid.T) PipeCase {
	var c PipeCase
	m := Mach{Rsize: rapid.SampledFrom([]int{8, 8, 16}).Draw(t, "rsize")}
	m.Inputs = rapid.IntRange(1, 2).Draw(t, "inputs")
	m.Outputs = rapid.SampledFrom([]int{1, 2, 3, 1, 2, 3, 11, 12}).Draw(t, "outputs") // (two-digit indexes: o10 sorts before o2 as a string)
	np := rapid.IntRange(1, 2).Draw(t, "nproc")
	// the processor that closes the run: straight-line code ending in a handshaked write, so the last output
	// turns valid after a bounded number of ticks whatever the inputs are
	closer := rapid.IntRange(0, np-1).Draw(t, "closer")
	var closerOut int
	for x := 0; x < np; x++ {
		p := Proc{N: rapid.IntRange(1, 2).Draw(t, "N"), M: rapid.IntRange(1, 2).Draw(t, "M"), R: rapid.IntRange(1, 2).Draw(t, "R")}
		if x == closer {
			reg := func() string { return fmt.Sprintf("r%d", rapid.IntRange(0, (1<<p.R)-1).Draw(t, "reg")) }
			n := rapid.IntRange(0, 6).Draw(t, "plen")
			fixedReg := ""
			if rapid.IntRange(0, 9).Draw(t, "through") < 6 {
				// read an input and hand it on: the values given to the pipeline reach its outputs
				n = 0
				fixedReg = "r0"
				p.Prog = append(p.Prog, fmt.Sprintf("i2r r0 i%d", rapid.IntRange(0, p.N-1).Draw(t, "pin")))
				if rapid.Bool().Draw(t, "plus") {
					p.Prog = append(p.Prog, "inc r0")
				}
				if rapid.Bool().Draw(t, "side") {
					p.Prog = append(p.Prog, fmt.Sprintf("r2o r0 o%d", rapid.IntRange(0, p.M-1).Draw(t, "pout")))
				}
			}
			for i := 0; i < n; i++ {
				switch rapid.SampledFrom([]string{"i2r", "i2r", "i2r", "r2o", "r2o", "inc", "add", "rset", "cpy", "dec", "nop"}).Draw(t, "op") {
				case "i2r":
					p.Prog = append(p.Prog, fmt.Sprintf("i2r %s i%d", reg(), rapid.IntRange(0, p.N-1).Draw(t, "pin")))
				case "r2o":
					p.Prog = append(p.Prog, fmt.Sprintf("r2o %s o%d", reg(), rapid.IntRange(0, p.M-1).Draw(t, "pout")))
				case "inc":
					p.Prog = append(p.Prog, "inc "+reg())
				case "dec":
					p.Prog = append(p.Prog, "dec "+reg())
				case "add":
					p.Prog = append(p.Prog, "add "+reg()+" "+reg())
				case "cpy":
					p.Prog = append(p.Prog, "cpy "+reg()+" "+reg())
				case "rset":
					p.Prog = append(p.Prog, fmt.Sprintf("rset %s %d", reg(), rapid.IntRange(0, 255).Draw(t, "imm")))
				case "nop":
					p.Prog = append(p.Prog, "nop")
				}
			}
			closerOut = rapid.IntRange(0, p.M-1).Draw(t, "closerOut")
			if fixedReg == "" {
				fixedReg = reg()
			}
			p.Prog = append(p.Prog, fmt.Sprintf("r2owa %s o%d", fixedReg, closerOut))
		} else {
			p.Prog = genProg(t, p, m.Rsize)
		}
		m.Procs = append(m.Procs, p)
	}
	var sources, pouts []string
	for i := 0; i < m.Inputs; i++ {
		sources = append(sources, fmt.Sprintf("i%d", i), fmt.Sprintf("i%d", i), fmt.Sprintf("i%d", i))
	}
	for x, p := range m.Procs {
		for k := 0; k < p.M; k++ {
			pouts = append(pouts, fmt.Sprintf("p%do%d", x, k))
		}
	}
	for x, p := range m.Procs {
		for k := 0; k < p.N; k++ {
			cand := append(append([]string{""}, sources...), pouts...)
			if s := rapid.SampledFrom(cand).Draw(t, "src"); s != "" {
				m.Bonds = append(m.Bonds, [2]string{fmt.Sprintf("p%di%d", x, k), s})
			}
		}
	}
	for k := 0; k < m.Outputs-1; k++ {
		if s := rapid.SampledFrom(append([]string{""}, append(pouts, pouts...)...)).Draw(t, "osrc"); s != "" {
			m.Bonds = append(m.Bonds, [2]string{fmt.Sprintf("o%d", k), s})
		}
	}
	m.Bonds = append(m.Bonds, [2]string{fmt.Sprintf("o%d", m.Outputs-1), fmt.Sprintf("p%do%d", closer, closerOut)})
	c.M = m
	nin := rapid.IntRange(0, m.Inputs).Draw(t, "ngiven")
	if rapid.IntRange(0, 3).Draw(t, "all") > 0 {
		nin = m.Inputs
	}
	for i := 0; i < nin; i++ {
		c.Inputs = append(c.Inputs, strconv.Itoa(rapid.IntRange(0, (1<<m.Rsize)-1).Draw(t, "inval")))
	}
	c.DataType = rapid.SampledFrom([]string{"unsigned", "unsigned", "hex", "bin"}).Draw(t, "dtype")
	return c
}

const pipeBudget = 200 // ticks; the closing processor needs at most 8 + 2

// pipePredict: fresh VM, inputs poked before the first step with valid raised, run until the last output is valid.
func pipePredict(m Mach, bm *bondmachine.Bondmachine, inputs []uint64) ([]uint64, bool) {
	vm := new(bondmachine.VM)
	vm.Bmach = bm
	if err := vm.Init(); err != nil {
		return nil, false
	}
	if err := vm.Launch_processors(emptyBox); err != nil {
		return nil, false
	}
	defer stopVM(vm)
	for i := 0; i < pipeBudget; i++ {
		if vm.OutputsValid[m.Outputs-1] {
			var r []uint64
			for k := 0; k < m.Outputs; k++ {
				r = append(r, u64(vm.Outputs_regs[k]))
			}
			return r, true
		}
		for k, rcv := range vm.InputsRecv {
			if rcv {
				vm.InputsValid[k] = false
			}
		}
		if i == 0 {
			for k, v := range inputs {
				vm.Inputs_regs[k] = regVal(m.Rsize, v)
				vm.InputsValid[k] = true
			}
		}
		if _, err := vm.Step(nil); err != nil {
			return nil, false
		}
		for k, v := range vm.OutputsValid {
			vm.OutputsRecv[k] = v
		}
	}
	return nil, false
}

func propPipe(c PipeCase) pbt.Outcome {
	bm, err := buildBM(c.M)
	if err != nil {
		return pbt.Outcome{Fail: pbt.Failf("harness", "machine does not build: %v", err)}
	}
	var in []uint64
	for _, s := range c.Inputs {
		v, err := strconv.ParseUint(s, 10, 64)
		if err != nil {
			return pbt.Outcome{Fail: pbt.Failf("harness", "input %q", s)}
		}
		in = append(in, v)
	}
	want, ok := pipePredict(c.M, bm, in)
	if !ok {
		return pbt.Outcome{Fail: pbt.Failf("harness", "generated pipeline does not raise valid on its last output within %d ticks", pipeBudget)}
	}
	zero, _ := pipePredict(c.M, bm, make([]uint64, len(in)))
	got, err := bm.SinglePipelineSimulate(c.DataType, c.Inputs, nil)
	if err != nil {
		return pbt.Outcome{Fail: pbt.Failf("pipeline-error", "SinglePipelineSimulate(%q, %v) = %v", c.DataType, c.Inputs, err)}
	}
	if len(got) != len(want) {
		return pbt.Outcome{Fail: pbt.Failf("pipeline-exit-count", "%d values shown on exit (%v) for %d outputs: every onexit:show rule fires exactly once", len(got), got, len(want))}
	}
	for k := range want {
		f := c.DataType
		if k == len(want)-1 {
			f = "unsigned"
		}
		v, err := decodeFormatted(got[k], f)
		if err != nil {
			return pbt.Outcome{Fail: pbt.Failf("pipeline-format", "output %d shown as %q: %v", k, got[k], err)}
		}
		if v != want[k] {
			return pbt.Outcome{Fail: pbt.Failf("pipeline-value", "output o%d shown on exit as %q, the machine fed %v at tick 0 holds %d there when o%d turns valid (all outputs: got %v want %v)\nmachine %+v",
				k, got[k], c.Inputs, want[k], len(want)-1, got, want, c.M)}
		}
	}
	labels := []string{"type:" + c.DataType, fmt.Sprintf("outputs:%d", c.M.Outputs), fmt.Sprintf("given:%d/%d", len(c.Inputs), c.M.Inputs)}
	nt := fmt.Sprint(zero) != fmt.Sprint(want)
	if nt {
		labels = append(labels, "inputs-reach-outputs")
	}
	return pbt.Outcome{NonTrivial: nt, Labels: labels}
}
