// C15 (b) — rules are applied by the simulator exactly as written.
//
// Three layers, kept apart on purpose:
//
//   - runReplica: the `-sim` loop of cmd/bondmachine/bondmachine.go:906-1278 copied
//     statement by statement (it lives in main() and cannot be called). Everything
//     rule related is the real library code: simbox.Add/Del/Suspend, the JSON rule
//     file, SimConfig/SimDrive/SimReport.Init, EventListShow, VM.Step. The entry
//     "cli_rules" runs the real binary on the same cases and demands that the replica
//     produces the same stdout/CSV, so the copy cannot drift unnoticed.
//   - predict: the oracle. It never touches simbox, SimDrive or SimReport: it parses
//     the rule texts with its own grammar (written from docs/simbox-rules.md),
//     resolves object names with its own table, runs a fresh VM and pokes/reads the
//     VM fields directly.
//   - the property: replica == prediction (state before and after every tick, show
//     lines, report header and rows), plus metamorphic re-runs of the replica.
//
// Tick convention (docs/simbox-rules.md is silent; taken from the CLI loop and stated in
// the entry's rule text): iteration T (0-based) = [inject absolute:T sets] -> VM.Step ->
// [show/get of tick T sample the state *after* that step]. `relative:P` fires on every
// tick T with T%P==0 (so also on tick 0).
package c15

import (
	"encoding/json"
	"fmt"
	"regexp"
	"sort"
	"strconv"
	"strings"

	"github.com/BondMachineHQ/BondMachine/pkg/bmnumbers"
	"github.com/BondMachineHQ/BondMachine/pkg/bondmachine"
	"github.com/BondMachineHQ/BondMachine/pkg/procbuilder"
	"github.com/BondMachineHQ/BondMachine/pkg/simbox"
)

// ---------------------------------------------------------------------------
// machine description (data) and builder

type Proc struct {
	N, M, R int      // inputs, outputs, register-index bits (2^R registers)
	Prog    []string // assembly lines
}

type Mach struct {
	Rsize   int
	Inputs  int
	Outputs int
	Procs   []Proc
	Bonds   [][2]string // {sink, source} internal names: sink in {oK,pXiK}, source in {iK,pXoK}
}

var opNames = []string{"add", "clr", "cpy", "dec", "i2r", "i2rw", "inc", "j", "nop", "r2o", "r2owa", "rset"}

const romBits = 4 // 16 ROM cells

func buildBM(m Mach) (*bondmachine.Bondmachine, error) {
	bm := new(bondmachine.Bondmachine)
	bm.Rsize = uint8(m.Rsize)
	for pi, p := range m.Procs {
		mach := new(procbuilder.Machine)
		mach.Arch.Rsize = uint8(m.Rsize)
		mach.Arch.Modes = []string{"ha"}
		mach.Arch.R = uint8(p.R)
		mach.Arch.N = uint8(p.N)
		mach.Arch.M = uint8(p.M)
		mach.Arch.L = 0
		mach.Arch.O = romBits
		for _, name := range opNames {
			var found procbuilder.Opcode
			for _, op := range procbuilder.Allopcodes {
				if op.Op_get_name() == name {
					found = op
				}
			}
			if found == nil {
				return nil, fmt.Errorf("opcode %s not registered", name)
			}
			mach.Arch.Op = append(mach.Arch.Op, found)
		}
		if len(p.Prog) == 0 || len(p.Prog) > 1<<romBits {
			return nil, fmt.Errorf("processor %d: program length %d", pi, len(p.Prog))
		}
		prog, err := mach.Arch.Assembler([]byte(strings.Join(p.Prog, "\n") + "\n"))
		if err != nil {
			return nil, fmt.Errorf("processor %d: %v", pi, err)
		}
		if len(prog.Slocs) != len(p.Prog) {
			return nil, fmt.Errorf("processor %d: %d lines assembled from %d", pi, len(prog.Slocs), len(p.Prog))
		}
		mach.Program = prog
		bm.Domains = append(bm.Domains, mach)
	}
	bm.Init()
	for i := 0; i < m.Inputs; i++ {
		if _, err := bm.Add_input(); err != nil {
			return nil, err
		}
	}
	for i := 0; i < m.Outputs; i++ {
		if _, err := bm.Add_output(); err != nil {
			return nil, err
		}
	}
	for i := range m.Procs {
		if _, err := bm.Add_processor(i); err != nil {
			return nil, err
		}
	}
	for _, b := range m.Bonds {
		bm.Add_bond([]string{b[0], b[1]})
	}
	return bm, nil
}

// ---------------------------------------------------------------------------
// the oracle's own rule grammar (from docs/simbox-rules.md + the forms Add is observed to take)

type mrule struct {
	Class  string // absolute relative onvalid onrecv onexit config
	Tick   uint64
	Action string // set get show config
	Object string
	Extra  string
	Doc    bool // the string is in the grammar documented in docs/simbox-rules.md
}

var cfgSimple = map[string]bool{"show_pc": true, "show_instruction": true, "show_disasm": true, "show_ticks": true,
	"get_ticks": true, "show_proc_regs_pre": true, "show_proc_regs_post": true, "show_proc_io_pre": true,
	"show_proc_io_post": true, "show_io_pre": true, "show_io_post": true}
var cfgBulk = map[string]bool{"get_all": true, "get_all_internal": true, "show_all": true, "show_all_internal": true}

var reDocTick = regexp.MustCompile(`^[0-9]+$`)

// goAtoi mirrors what an "integer" is for a Go program reading the field (sign, no spaces); the
// docs only say "must be integers".
func goAtoi(s string) (uint64, bool) {
	v, err := strconv.ParseInt(s, 10, 64)
	if err != nil {
		return 0, false
	}
	return uint64(v), true
}

func modelParse(s string) (mrule, bool) {
	w := strings.Split(s, ":")
	isAct := func(a string, withSet bool) bool {
		return a == "get" || a == "show" || (withSet && a == "set")
	}
	switch w[0] {
	case "absolute", "relative":
		if len(w) == 5 && isAct(w[2], true) {
			if t, ok := goAtoi(w[1]); ok {
				doc := reDocTick.MatchString(w[1]) && w[3] != "" && w[4] != ""
				return mrule{Class: w[0], Tick: t, Action: w[2], Object: w[3], Extra: w[4], Doc: doc}, true
			}
		}
		if len(w) == 4 && isAct(w[2], false) { // undocumented short form, observed in Add: default format
			if t, ok := goAtoi(w[1]); ok {
				return mrule{Class: w[0], Tick: t, Action: w[2], Object: w[3], Extra: "unsigned"}, true
			}
		}
	case "onvalid", "onrecv", "onexit":
		if len(w) == 4 && isAct(w[1], false) {
			return mrule{Class: w[0], Action: w[1], Object: w[2], Extra: w[3], Doc: w[2] != "" && w[3] != ""}, true
		}
		if len(w) == 3 && isAct(w[1], false) {
			return mrule{Class: w[0], Action: w[1], Object: w[2], Extra: "unsigned", Doc: w[2] != ""}, true
		}
	case "config":
		if len(w) == 2 && cfgSimple[w[1]] {
			return mrule{Class: "config", Action: "config", Object: w[1], Doc: true}, true
		}
		if len(w) == 3 && cfgBulk[w[1]] {
			return mrule{Class: "config", Action: "config", Object: w[1], Extra: w[2], Doc: w[2] != ""}, true
		}
	}
	return mrule{}, false
}

func (r mrule) form() string {
	if r.Class == "config" {
		return "config/" + r.Object
	}
	return r.Class + "/" + r.Action
}

// ---------------------------------------------------------------------------
// the oracle's own object table

type objRef struct {
	kind  string // i o pi po pr iv ir ov or
	a, b  int
	input int // for kind "i": the external input whose valid flag a set raises; else -1
}

var (
	reObjI  = regexp.MustCompile(`^i([0-9]+)$`)
	reObjO  = regexp.MustCompile(`^o([0-9]+)$`)
	reObjIF = regexp.MustCompile(`^i([0-9]+)([vr])$`)
	reObjOF = regexp.MustCompile(`^o([0-9]+)([vr])$`)
	reObjP  = regexp.MustCompile(`^p([0-9]+)([ior])([0-9]+)$`)
)

func atoiSmall(s string) int {
	if len(s) > 6 {
		return 1 << 30
	}
	v, _ := strconv.Atoi(s)
	return v
}

func resolveObj(m Mach, name string) (objRef, bool) {
	if g := reObjI.FindStringSubmatch(name); g != nil {
		if k := atoiSmall(g[1]); k < m.Inputs {
			return objRef{kind: "i", a: k, input: k}, true
		}
		return objRef{}, false
	}
	if g := reObjO.FindStringSubmatch(name); g != nil {
		if k := atoiSmall(g[1]); k < m.Outputs {
			return objRef{kind: "o", a: k, input: -1}, true
		}
		return objRef{}, false
	}
	if g := reObjIF.FindStringSubmatch(name); g != nil {
		if k := atoiSmall(g[1]); k < m.Inputs {
			return objRef{kind: "i" + g[2], a: k, input: -1}, true
		}
		return objRef{}, false
	}
	if g := reObjOF.FindStringSubmatch(name); g != nil {
		if k := atoiSmall(g[1]); k < m.Outputs {
			return objRef{kind: "o" + g[2], a: k, input: -1}, true
		}
		return objRef{}, false
	}
	if g := reObjP.FindStringSubmatch(name); g != nil {
		x, k := atoiSmall(g[1]), atoiSmall(g[3])
		if x >= len(m.Procs) {
			return objRef{}, false
		}
		p := m.Procs[x]
		switch g[2] {
		case "i":
			if k < p.N {
				return objRef{kind: "pi", a: x, b: k, input: -1}, true
			}
		case "o":
			if k < p.M {
				return objRef{kind: "po", a: x, b: k, input: -1}, true
			}
		case "r":
			if k < 1<<p.R {
				return objRef{kind: "pr", a: x, b: k, input: -1}, true
			}
		}
	}
	return objRef{}, false
}

func (o objRef) isFlag() bool {
	return len(o.kind) == 2 && (o.kind[1] == 'v' || o.kind[1] == 'r') && o.kind[0] != 'p'
}

func u64(v interface{}) uint64 {
	switch x := v.(type) {
	case uint8:
		return uint64(x)
	case uint16:
		return uint64(x)
	case uint32:
		return uint64(x)
	case uint64:
		return x
	}
	panic(fmt.Sprintf("register holds a %T", v))
}

func regVal(rsize int, v uint64) interface{} {
	switch {
	case rsize <= 8:
		return uint8(v)
	case rsize <= 16:
		return uint16(v)
	case rsize <= 32:
		return uint32(v)
	}
	return v
}

func (o objRef) slot(vm *bondmachine.VM) *interface{} {
	switch o.kind {
	case "i":
		return &vm.Inputs_regs[o.a]
	case "o":
		return &vm.Outputs_regs[o.a]
	case "pi":
		return &vm.Processors[o.a].Inputs[o.b]
	case "po":
		return &vm.Processors[o.a].Outputs[o.b]
	case "pr":
		return &vm.Processors[o.a].Registers[o.b]
	}
	return nil
}

// allObjects lists every value object of the machine (no flags) in a fixed order.
func allObjects(m Mach) []string {
	var r []string
	for i := 0; i < m.Inputs; i++ {
		r = append(r, fmt.Sprintf("i%d", i))
	}
	for i := 0; i < m.Outputs; i++ {
		r = append(r, fmt.Sprintf("o%d", i))
	}
	for x, p := range m.Procs {
		for k := 0; k < p.N; k++ {
			r = append(r, fmt.Sprintf("p%di%d", x, k))
		}
		for k := 0; k < p.M; k++ {
			r = append(r, fmt.Sprintf("p%do%d", x, k))
		}
		for k := 0; k < 1<<p.R; k++ {
			r = append(r, fmt.Sprintf("p%dr%d", x, k))
		}
	}
	return r
}

func bits(b []bool) string {
	r := make([]byte, len(b))
	for i, x := range b {
		r[i] = '0'
		if x {
			r[i] = '1'
		}
	}
	return string(r)
}

// snapshot of everything observable in a VM, as a comparable string (object=value ... flags ... pcs)
func snapshot(m Mach, vm *bondmachine.VM) string {
	var sb strings.Builder
	for _, name := range allObjects(m) {
		o, _ := resolveObj(m, name)
		fmt.Fprintf(&sb, "%s=%d ", name, u64(*o.slot(vm)))
	}
	fmt.Fprintf(&sb, "iv=%s ir=%s ov=%s or=%s", bits(vm.InputsValid), bits(vm.InputsRecv), bits(vm.OutputsValid), bits(vm.OutputsRecv))
	for x, p := range vm.Processors {
		fmt.Fprintf(&sb, " pc%d=%d piv%d=%s por%d=%s pov%d=%s pir%d=%s", x, p.Pc, x, bits(p.InputsValid), x, bits(p.OutputsRecv), x, bits(p.OutputsValid), x, bits(p.InputsRecv))
	}
	return sb.String()
}

// ---------------------------------------------------------------------------
// result of a simulation run, in a form both the replica and the oracle produce

type tickOut struct {
	Pre     string   // state after the injections of this tick, before the step ("" on the shutdown tick)
	Post    string   // state at the end of the iteration
	Shows   []uint64 // decoded values printed on this tick, in print order
	ShowFmt []string // oracle only: display format of each shown value
	Row     map[string]uint64
	HasRow  bool
	RowTick string // first column when config:get_ticks is active ("" otherwise)
}

type runOut struct {
	Err      string // non-empty: the run ended with an error/fatal (class:text)
	Header   []string
	Ticks    []tickOut
	Shut     int               // iteration at which the run shut down on a valid output (-1: ran out of ticks)
	Fired    map[string]int    // oracle only: how many times rules of an event class fired
	ColFmt   map[string]string // oracle only: display format per report column
	GetTicks bool              // oracle only: config:get_ticks active
	// raw text the real CLI would print (stdout show lines, CSV lines) for the CLI comparison
	Stdout []string
	CSV    [][]string
}

// decodeFormatted turns what bmnumbers printed back into a number, per declared format.
func decodeFormatted(s, format string) (uint64, error) {
	switch format {
	case "unsigned":
		return strconv.ParseUint(s, 10, 64)
	case "hex":
		i := strings.Index(s, ">")
		if !strings.HasPrefix(s, "0x<") || i < 0 {
			return 0, fmt.Errorf("not a sized hex literal: %q", s)
		}
		return strconv.ParseUint(s[i+1:], 16, 64)
	case "bin":
		i := strings.Index(s, ">")
		if !strings.HasPrefix(s, "0b<") || i < 0 {
			return 0, fmt.Errorf("not a sized binary literal: %q", s)
		}
		return strconv.ParseUint(s[i+1:], 2, 64)
	}
	return 0, fmt.Errorf("format %q has no decoder", format)
}

// formatValue is bondmachine.go:1134-1155 / 1208-1234 (the same six calls for show and get).
func formatValue(nType string, v interface{}) (string, error) {
	if _, err := bmnumbers.EventuallyCreateType(nType, nil); err != nil {
		return "", fmt.Errorf("fatal:%v", err)
	}
	t := bmnumbers.GetType(nType)
	if t == nil {
		return "", fmt.Errorf("fatal:Error: Unknown type")
	}
	number, err := bmnumbers.ImportUint(v, t.GetSize())
	if err != nil {
		return "", fmt.Errorf("fatal:%v", err)
	}
	if err := bmnumbers.CastType(number, t); err != nil {
		return "", fmt.Errorf("fatal:%v", err)
	}
	s, err := number.ExportString(nil)
	if err != nil {
		return "", fmt.Errorf("fatal:%v", err)
	}
	return s, nil
}

// buildSimbox replays the history encoded in the case: Add every rule, Del the ones marked
// Deleted (from the back, so indices stay valid), Suspend the ones marked Suspended, then pass
// the box through the JSON rule file exactly like cmd/simbox writes it and cmd/bondmachine reads it.
func buildSimbox(rules []SRule) (*simbox.Simbox, error) {
	sb := new(simbox.Simbox)
	for _, r := range rules {
		if err := sb.Add(r.Text); err != nil {
			return nil, fmt.Errorf("add %q: %v", r.Text, err)
		}
	}
	if len(sb.Rules) != len(rules) {
		return nil, fmt.Errorf("%d rules after %d Add", len(sb.Rules), len(rules))
	}
	for i, r := range rules {
		if r.Suspended {
			if err := sb.Suspend(i); err != nil {
				return nil, err
			}
		}
	}
	for i := len(rules) - 1; i >= 0; i-- {
		if rules[i].Deleted {
			if err := sb.Del(i); err != nil {
				return nil, err
			}
		}
	}
	b, err := json.Marshal(sb)
	if err != nil {
		return nil, err
	}
	sb2 := new(simbox.Simbox)
	if err := json.Unmarshal(b, sb2); err != nil {
		return nil, err
	}
	return sb2, nil
}

// stopVM ends the worker goroutines of a launched VM when the tree under test offers a way to do it
// (VM.Stop_processors exists since the fix for the worker leak); older trees simply leak them.
func stopVM(vm *bondmachine.VM) {
	if s, ok := interface{}(vm).(interface{ Stop_processors() }); ok {
		s.Stop_processors()
	}
}

// runReplica: cmd/bondmachine/bondmachine.go lines 923-1278, with fmt.Print/csv.Write replaced by
// appends, log.Fatal/panic(check) replaced by an error return, and two observation points (Pre/Post).
func runReplica(m Mach, bm *bondmachine.Bondmachine, sbox *simbox.Simbox, interactions int, stopOn int) (out runOut) {
	out.Shut = -1
	conf := new(bondmachine.Config)
	vm := new(bondmachine.VM)
	vm.Emulating = false
	vm.Bmach = bm
	vm.SimDelayMap = nil
	if err := vm.Init(); err != nil {
		out.Err = "panic:" + err.Error()
		return
	}
	oldVm := new(bondmachine.VM)
	oldVm.Emulating = false
	oldVm.Bmach = bm
	oldVm.SimDelayMap = vm.SimDelayMap
	if err := oldVm.Init(); err != nil {
		out.Err = "panic:" + err.Error()
		return
	}
	sconfig := new(bondmachine.SimConfig)
	if err := sconfig.Init(sbox, vm, conf); err != nil {
		out.Err = "panic:" + err.Error()
		return
	}
	sdrive := new(bondmachine.SimDrive)
	if err := sdrive.Init(conf, sbox, vm); err != nil {
		out.Err = "panic:" + err.Error()
		return
	}
	srep := new(bondmachine.SimReport)
	if err := srep.Init(sbox, vm); err != nil {
		out.Err = "panic:" + err.Error()
		return
	}
	srepOld := new(bondmachine.SimReport)
	if err := srepOld.Init(sbox, oldVm); err != nil {
		out.Err = "panic:" + err.Error()
		return
	}
	if err := vm.Launch_processors(sbox); err != nil {
		out.Err = "panic:" + err.Error()
		return
	}
	defer stopVM(vm) // not in the CLI (the process exits); keeps the test process small

	// report header (the CLI writes it only with -sim-report; every run here has one)
	if sconfig.GetTicks {
		out.CSV = append(out.CSV, append([]string{"tick"}, srep.ReportablesNames...))
	} else {
		out.CSV = append(out.CSV, append([]string{}, srep.ReportablesNames...))
	}
	out.Header = append([]string{}, srep.ReportablesNames...)

	if stopOn != -1 {
		if stopOn >= len(vm.OutputsValid) {
			out.Err = "fatal:sim-stop-on-valid-of index out of range"
			return
		}
	}

	for i := uint64(0); i < uint64(interactions); i++ {
		var to tickOut
		shutDownSim := false
		if stopOn != -1 {
			if vm.OutputsValid[stopOn] {
				shutDownSim = true
			}
		}
		if !shutDownSim {
			for inIdx, inRecv := range vm.InputsRecv {
				if inRecv {
					vm.InputsValid[inIdx] = false
				}
			}
			if act, exist_actions := sdrive.AbsSet[i]; exist_actions {
				for k, val := range act {
					*sdrive.Injectables[k] = val
					if inIdx, ok := sdrive.NeedValid[k]; ok {
						vm.InputsValid[inIdx] = true
					}
				}
			}
			// TODO Periodic set   <- bondmachine.go:1055, nothing happens here in the CLI
			to.Pre = snapshot(m, vm)
			result, err := vm.Step(sconfig)
			if err != nil {
				out.Err = "panic:" + err.Error()
				return
			}
			for outIdx, outValid := range vm.OutputsValid {
				if outValid {
					vm.OutputsRecv[outIdx] = true
				} else {
					vm.OutputsRecv[outIdx] = false
				}
			}
			if result != "" {
				out.Stdout = append(out.Stdout, strings.Split(strings.TrimSuffix(result, "\n"), "\n")...)
			}
		}
		to.Post = snapshot(m, vm)

		showList := make([]int, 0, len(srep.Showables))
		if slist, exist_shows := srep.AbsShow[i]; exist_shows {
			for k := range slist {
				showList = append(showList, k)
			}
		}
		for j, slist := range srep.PerShow {
			if i%j == 0 {
				for k := range slist {
					alredtIn := false
					for _, v := range showList {
						if v == k {
							alredtIn = true
							break
						}
					}
					if !alredtIn {
						showList = append(showList, k)
					}
				}
			}
		}
		slist, err := bondmachine.EventListShow(shutDownSim, srep, srepOld, vm, oldVm)
		if err != nil {
			out.Err = "fatal:" + err.Error()
			return
		}
		for k := range slist {
			alredtIn := false
			for _, v := range showList {
				if v == k {
					alredtIn = true
					break
				}
			}
			if !alredtIn {
				showList = append(showList, k)
			}
		}
		sort.Ints(showList)
		line := ""
		for _, k := range showList {
			nType := srep.ShowablesTypes[k]
			numberS, err := formatValue(nType, *srep.Showables[k])
			if err != nil {
				out.Err = err.Error()
				return
			}
			line += numberS + " "
			v, derr := decodeFormatted(numberS, nType)
			if derr != nil {
				out.Err = "undecodable:" + derr.Error()
				return
			}
			to.Shows = append(to.Shows, v)
		}
		if len(showList) > 0 {
			out.Stdout = append(out.Stdout, line)
		}

		// report (the CLI does this when -sim-report is given)
		{
			repList := make([]int, 0, len(srep.Reportables))
			recordC := make([]string, len(srep.Reportables))
			if sconfig.GetTicks {
				recordC = append(recordC, "")
				recordC[0] = strconv.FormatUint(i, 10)
			}
			if sconfig.GetAll || sconfig.GetAllInternal {
				for j := range srep.Reportables {
					repList = append(repList, j)
				}
			} else {
				if rep, exist_reports := srep.AbsGet[i]; exist_reports {
					for k := range rep {
						repList = append(repList, k)
					}
				}
				for j, rep := range srep.PerGet {
					if i%j == 0 {
						for k := range rep {
							alredtIn := false
							for _, v := range repList {
								if v == k {
									alredtIn = true
									break
								}
							}
							if !alredtIn {
								repList = append(repList, k)
							}
						}
					}
				}
				// TODO get from events   <- bondmachine.go:1200
			}
			someToReport := false
			row := map[string]uint64{}
			for _, k := range repList {
				nType := srep.ReportablesTypes[k]
				numberS, err := formatValue(nType, *srep.Reportables[k])
				if err != nil {
					out.Err = err.Error()
					return
				}
				someToReport = true
				if sconfig.GetTicks {
					recordC[k+1] = numberS
				} else {
					recordC[k] = numberS
				}
				v, derr := decodeFormatted(numberS, nType)
				if derr != nil {
					out.Err = "undecodable:" + derr.Error()
					return
				}
				row[srep.ReportablesNames[k]] = v
			}
			if sconfig.GetTicks || someToReport {
				out.CSV = append(out.CSV, append([]string{}, recordC...))
				to.HasRow = true
				to.Row = row
				if sconfig.GetTicks {
					to.RowTick = recordC[0]
				}
			}
		}
		out.Ticks = append(out.Ticks, to)
		if shutDownSim {
			out.Shut = int(i)
			break
		}
		if err := oldVm.CopyState(vm); err != nil {
			out.Err = "panic:" + err.Error()
			return
		}
	}
	return
}

// ---------------------------------------------------------------------------
// the oracle

type semantics struct {
	// every field false = what docs/simbox-rules.md and the statement promise.
	// The switches exist only to *name* a recorded defect when the documented prediction fails
	// (classification of a failure), never to accept a run.
	NoPeriodicSet bool // relative:P:set is compiled and then ignored
	NoEventGet    bool // onvalid:get / onexit:get never write a row
	NoExitAtEnd   bool // onexit fires only on -sim-stop-on-valid-of, not when the tick budget ends
	StealsValid   bool // a relative:P:set:iK listed before the first absolute:T:set:iK stops the latter from raising valid
}

type prule struct {
	mrule
	obj      objRef
	resolved bool
}

var emptyBox = new(simbox.Simbox)

// predict runs a fresh VM under the rules' documented meaning. Returned Err "unresolved" means an
// active time rule names an object the machine does not have (the run may legitimately be refused).
func predict(m Mach, bm *bondmachine.Bondmachine, rules []mrule, interactions, stopOn int, sem semantics) (out runOut) {
	out.Shut = -1
	out.Fired = map[string]int{}
	var prs []prule
	for _, r := range rules {
		p := prule{mrule: r}
		if r.Class != "config" {
			p.obj, p.resolved = resolveObj(m, r.Object)
			if !p.resolved && (r.Class == "absolute" || r.Class == "relative") {
				out.Err = "unresolved:" + r.Object
				return
			}
		}
		prs = append(prs, p)
	}
	// report columns / show slots: first mention among the active rules
	type col struct {
		name, format string
		obj          objRef
	}
	var cols, slots []col
	addTo := func(list *[]col, name, format string) {
		for _, c := range *list {
			if c.name == name {
				return
			}
		}
		o, ok := resolveObj(m, name)
		if !ok {
			return
		}
		if format == "" {
			format = "unsigned"
		}
		*list = append(*list, col{name, format, o})
	}
	getTicks, getAll := false, false
	for _, p := range prs {
		switch {
		case p.Class == "config":
			var names []string
			switch p.Object {
			case "get_ticks":
				getTicks = true
			case "get_all", "get_all_internal", "show_all", "show_all_internal":
				// "all registers/objects": the ends of every bond-able wire (shell outputs, processor inputs,
				// then shell inputs, processor outputs); the _internal forms add the processor registers
				for i := 0; i < m.Outputs; i++ {
					names = append(names, fmt.Sprintf("o%d", i))
				}
				for x, pr := range m.Procs {
					for k := 0; k < pr.N; k++ {
						names = append(names, fmt.Sprintf("p%di%d", x, k))
					}
				}
				for i := 0; i < m.Inputs; i++ {
					names = append(names, fmt.Sprintf("i%d", i))
				}
				for x, pr := range m.Procs {
					for k := 0; k < pr.M; k++ {
						names = append(names, fmt.Sprintf("p%do%d", x, k))
					}
				}
				if strings.HasSuffix(p.Object, "_internal") {
					for x, pr := range m.Procs {
						for k := 0; k < 1<<pr.R; k++ {
							names = append(names, fmt.Sprintf("p%dr%d", x, k))
						}
					}
				}
				if strings.HasPrefix(p.Object, "get") {
					getAll = true
					for _, n := range names {
						addTo(&cols, n, p.Extra)
					}
				} else {
					for _, n := range names {
						addTo(&slots, n, p.Extra)
					}
				}
			}
		case p.Action == "get" && p.Class != "onrecv":
			addTo(&cols, p.Object, p.Extra)
		case p.Action == "show" && p.Class != "onrecv":
			addTo(&slots, p.Object, p.Extra)
		}
	}
	out.ColFmt = map[string]string{}
	out.GetTicks = getTicks
	for _, c := range cols {
		out.Header = append(out.Header, c.name)
		out.ColFmt[c.name] = c.format
	}

	vm := new(bondmachine.VM)
	vm.Bmach = bm
	if err := vm.Init(); err != nil {
		out.Err = "panic:" + err.Error()
		return
	}
	if err := vm.Launch_processors(emptyBox); err != nil {
		out.Err = "panic:" + err.Error()
		return
	}
	defer stopVM(vm)
	validOf := func(o objRef) (bool, bool) { // (has a valid flag, its value)
		switch o.kind {
		case "i":
			return true, vm.InputsValid[o.a]
		case "o":
			return true, vm.OutputsValid[o.a]
		}
		return false, false
	}
	prevValid := map[string]bool{}
	stolen := map[int]bool{} // StealsValid: inputs whose first set rule in the list is a periodic one
	if sem.StealsValid {
		seen := map[int]bool{}
		for _, p := range prs {
			if p.Action == "set" && p.obj.input >= 0 && !seen[p.obj.input] {
				seen[p.obj.input] = true
				stolen[p.obj.input] = p.Class == "relative"
			}
		}
	}

	for i := 0; i < interactions; i++ {
		var to tickOut
		shut := stopOn != -1 && vm.OutputsValid[stopOn]
		if !shut {
			// the simulated environment of the CLI (not a rule): an input stops being valid once consumed
			for k, r := range vm.InputsRecv {
				if r {
					vm.InputsValid[k] = false
				}
			}
			for _, p := range prs {
				if p.Action != "set" || p.obj.isFlag() {
					continue
				}
				fire := false
				switch p.Class {
				case "absolute":
					fire = p.Tick == uint64(i)
				case "relative":
					fire = !sem.NoPeriodicSet && p.Tick != 0 && uint64(i)%p.Tick == 0
				}
				if !fire {
					continue
				}
				v, ok := parseSetValue(p.Extra)
				if !ok {
					out.Err = "badvalue:" + p.Extra
					return
				}
				*p.obj.slot(vm) = regVal(m.Rsize, v)
				if p.obj.input >= 0 && !stolen[p.obj.input] { // presenting a value on an external input raises its valid flag
					vm.InputsValid[p.obj.input] = true
				}
			}
			to.Pre = snapshot(m, vm)
			if _, err := vm.Step(nil); err != nil {
				out.Err = "panic:" + err.Error()
				return
			}
			for k, v := range vm.OutputsValid {
				vm.OutputsRecv[k] = v
			}
		}
		to.Post = snapshot(m, vm)
		last := i == interactions-1

		fires := func(p prule) bool {
			switch p.Class {
			case "absolute":
				return p.Tick == uint64(i)
			case "relative":
				return p.Tick != 0 && uint64(i)%p.Tick == 0
			case "onvalid":
				if has, now := validOf(p.obj); p.resolved && has {
					return now && !prevValid[p.Object]
				}
			case "onexit":
				if !p.resolved {
					return false
				}
				if shut {
					return true
				}
				return last && !sem.NoExitAtEnd
			}
			return false
		}
		shown := map[string]bool{}
		got := map[string]bool{}
		for _, p := range prs {
			if p.Class == "config" || p.Action == "set" || !fires(p) {
				continue
			}
			out.Fired[p.Class]++
			if p.Action == "show" {
				shown[p.Object] = true
			}
			if p.Action == "get" {
				if (p.Class == "onvalid" || p.Class == "onexit") && sem.NoEventGet {
					continue
				}
				got[p.Object] = true
			}
		}
		for _, s := range slots {
			if shown[s.name] {
				to.Shows = append(to.Shows, u64(*s.obj.slot(vm)))
				to.ShowFmt = append(to.ShowFmt, s.format)
			}
		}
		row := map[string]uint64{}
		for _, c := range cols {
			if getAll || got[c.name] {
				row[c.name] = u64(*c.obj.slot(vm))
			}
		}
		if getTicks || len(row) > 0 {
			to.HasRow = true
			to.Row = row
			if getTicks {
				to.RowTick = strconv.Itoa(i)
			}
		}
		out.Ticks = append(out.Ticks, to)
		for _, p := range prs {
			if p.Class == "onvalid" && p.resolved {
				if has, now := validOf(p.obj); has {
					prevValid[p.Object] = now
				}
			}
		}
		if shut {
			out.Shut = i
			break
		}
	}
	return
}

var (
	reDec  = regexp.MustCompile(`^[0-9]+$`)
	reDecD = regexp.MustCompile(`^0d[0-9]+$`)
	reHex  = regexp.MustCompile(`^0x[0-9a-fA-F]+$`)
	reBin  = regexp.MustCompile(`^0b[01]+$`)
)

// parseSetValue: the literal forms the generator uses for "the stated value".
func parseSetValue(s string) (uint64, bool) {
	switch {
	case reDec.MatchString(s):
		v, err := strconv.ParseUint(s, 10, 64)
		return v, err == nil
	case reDecD.MatchString(s):
		v, err := strconv.ParseUint(s[2:], 10, 64)
		return v, err == nil
	case reHex.MatchString(s):
		v, err := strconv.ParseUint(s[2:], 16, 64)
		return v, err == nil
	case reBin.MatchString(s):
		v, err := strconv.ParseUint(s[2:], 2, 64)
		return v, err == nil
	}
	return 0, false
}

// compareRuns returns "" when the two runs agree on everything the statement talks about.
// byName: compare show values as multisets (used across rule permutations, where slot order moves).
func compareRuns(got, want runOut, byName bool) string {
	if (got.Err != "") != (want.Err != "") {
		return fmt.Sprintf("run error %q, expected %q", got.Err, want.Err)
	}
	if got.Err != "" {
		return ""
	}
	if byName {
		a, b := append([]string{}, got.Header...), append([]string{}, want.Header...)
		sort.Strings(a)
		sort.Strings(b)
		if strings.Join(a, ",") != strings.Join(b, ",") {
			return fmt.Sprintf("report columns %v, expected %v", got.Header, want.Header)
		}
	} else if strings.Join(got.Header, ",") != strings.Join(want.Header, ",") {
		return fmt.Sprintf("report columns %v, expected %v", got.Header, want.Header)
	}
	if got.Shut != want.Shut {
		return fmt.Sprintf("shut down at iteration %d, expected %d", got.Shut, want.Shut)
	}
	if len(got.Ticks) != len(want.Ticks) {
		return fmt.Sprintf("%d iterations, expected %d", len(got.Ticks), len(want.Ticks))
	}
	for t := range got.Ticks {
		g, w := got.Ticks[t], want.Ticks[t]
		if g.Pre != w.Pre {
			return fmt.Sprintf("tick %d, state after injection:\n  got  %s\n  want %s", t, g.Pre, w.Pre)
		}
		if g.Post != w.Post {
			return fmt.Sprintf("tick %d, state after the step:\n  got  %s\n  want %s", t, g.Post, w.Post)
		}
		gs, ws := g.Shows, w.Shows
		if byName {
			gs, ws = append([]uint64{}, gs...), append([]uint64{}, ws...)
			sort.Slice(gs, func(i, j int) bool { return gs[i] < gs[j] })
			sort.Slice(ws, func(i, j int) bool { return ws[i] < ws[j] })
		}
		if fmt.Sprint(gs) != fmt.Sprint(ws) {
			return fmt.Sprintf("tick %d shows %v, expected %v", t, g.Shows, w.Shows)
		}
		if g.HasRow != w.HasRow {
			return fmt.Sprintf("tick %d report row present=%v (%v), expected present=%v (%v)", t, g.HasRow, g.Row, w.HasRow, w.Row)
		}
		if g.RowTick != w.RowTick {
			return fmt.Sprintf("tick %d report row carries tick %q, expected %q", t, g.RowTick, w.RowTick)
		}
		if fmt.Sprint(g.Row) != fmt.Sprint(w.Row) { // fmt prints maps with sorted keys
			return fmt.Sprintf("tick %d report row %v, expected %v", t, g.Row, w.Row)
		}
	}
	return ""
}

// snapField reads one "name=value" (or "name=[...]") field out of a snapshot string.
func snapField(snap, name string) (string, bool) {
	for _, f := range strings.Split(snap, " ") {
		if strings.HasPrefix(f, name+"=") {
			return f[len(name)+1:], true
		}
	}
	return "", false
}
