// C15 (b) — the real `bondmachine -sim` binary on the same cases as sim_rules.
//  1. what it prints (show lines on stdout, the -sim-report file) is judged against the oracle directly;
//  2. it must also equal, byte for byte, what the loop copy of sim_test.go prints, so the copy used by sim_rules
//     cannot drift from the CLI unnoticed (signature replica-drift = the harness is out of date, not /repo);
//  3. the case then goes through everything sim_rules checks.
package c15

import (
	"bytes"
	"context"
	"encoding/csv"
	"encoding/json"
	"fmt"
	"os"
	"os/exec"
	"path/filepath"
	"sort"
	"strconv"
	"strings"
	"sync"
	"time"

	"verifharness/pbt"
)

var (
	toolOnce sync.Once
	toolPath string
	toolErr  error
)

// bondmachineTool: $VERIF_TOOLS/bondmachine (built by checkd from the tree under test); for a bare
// `go test ./c15` it is built once from the tree the module's replace directive points at.
func bondmachineTool() (string, error) {
	toolOnce.Do(func() {
		if d := os.Getenv("VERIF_TOOLS"); d != "" {
			p := filepath.Join(d, "bondmachine")
			if _, err := os.Stat(p); err == nil {
				toolPath = p
				return
			}
		}
		repo := os.Getenv("VERIF_REPO")
		if repo == "" {
			repo = "/repo"
		}
		dir, err := os.MkdirTemp("", "c15-tools-")
		if err != nil {
			toolErr = err
			return
		}
		ctx, cancel := context.WithTimeout(context.Background(), 5*time.Minute)
		defer cancel()
		cmd := exec.CommandContext(ctx, "go", "build", "-tags", "verif", "-o", dir+"/", "./cmd/bondmachine")
		cmd.Dir = repo
		cmd.Env = append(os.Environ(), "GOFLAGS=-mod=mod", "GOPROXY=off", "GOSUMDB=off", "GOTOOLCHAIN=local")
		if b, err := cmd.CombinedOutput(); err != nil {
			toolErr = fmt.Errorf("building bondmachine: %v\n%s", err, b)
			return
		}
		toolPath = filepath.Join(dir, "bondmachine")
	})
	return toolPath, toolErr
}

type cliOut struct {
	Exit   int
	Stdout []string
	Stderr string
	CSV    [][]string
}

func runCLI(c SimCase) (cliOut, error) {
	var out cliOut
	tool, err := bondmachineTool()
	if err != nil {
		return out, err
	}
	bm, err := buildBM(c.M)
	if err != nil {
		return out, err
	}
	sbox, err := buildSimbox(c.Rules)
	if err != nil {
		return out, err
	}
	dir, err := os.MkdirTemp(os.Getenv("VERIF_WORK"), "c15-cli-")
	if err != nil {
		return out, err
	}
	defer os.RemoveAll(dir)
	bmj, err := json.Marshal(bm.Jsoner())
	if err != nil {
		return out, err
	}
	sbj, err := json.Marshal(sbox) // cmd/simbox/simbox.go:96
	if err != nil {
		return out, err
	}
	if err := os.WriteFile(filepath.Join(dir, "bm.json"), bmj, 0o644); err != nil {
		return out, err
	}
	if err := os.WriteFile(filepath.Join(dir, "sb.json"), sbj, 0o644); err != nil {
		return out, err
	}
	args := []string{"-bondmachine-file", "bm.json", "-sim", "-simbox-file", "sb.json", "-sim-interactions", strconv.Itoa(c.Ticks), "-sim-report", "rep.csv"}
	if c.StopOn != -1 {
		args = append(args, "-sim-stop-on-valid-of", strconv.Itoa(c.StopOn))
	}
	ctx, cancel := context.WithTimeout(context.Background(), 90*time.Second)
	defer cancel()
	cmd := exec.CommandContext(ctx, tool, args...)
	cmd.Dir = dir
	var so, se bytes.Buffer
	cmd.Stdout, cmd.Stderr = &so, &se
	err = cmd.Run()
	if ctx.Err() != nil {
		return out, fmt.Errorf("bondmachine -sim timed out")
	}
	if err != nil {
		if ee, ok := err.(*exec.ExitError); ok {
			out.Exit = ee.ExitCode()
		} else {
			return out, err
		}
	}
	if s := strings.TrimSuffix(so.String(), "\n"); s != "" {
		out.Stdout = strings.Split(s, "\n")
	}
	out.Stderr = se.String()
	if b, err := os.ReadFile(filepath.Join(dir, "rep.csv")); err == nil {
		r := csv.NewReader(bytes.NewReader(b))
		r.FieldsPerRecord = -1
		recs, err := r.ReadAll()
		if err != nil {
			return out, fmt.Errorf("report file does not parse: %v", err)
		}
		out.CSV = recs
	}
	return out, nil
}

// nonEmpty drops the records encoding/csv cannot represent (a record of zero fields is written as an empty
// line and skipped on reading; a record holding one empty field is written as `""`).
func nonEmpty(recs [][]string) [][]string {
	var r [][]string
	for _, x := range recs {
		if len(x) > 0 {
			r = append(r, x)
		}
	}
	return r
}

// judgeCLI compares what the binary printed with the oracle's run: the sequence of show lines (ticks that show
// nothing print nothing) and the report file (header by name, one record per tick that reports something).
func judgeCLI(cli cliOut, want runOut) string {
	if cli.Exit != 0 {
		return fmt.Sprintf("the CLI exits %d: %s", cli.Exit, firstLines(cli.Stderr, 3))
	}
	var lines []string
	for _, l := range cli.Stdout {
		if strings.HasPrefix(l, "\t") || strings.HasPrefix(l, "Absolute tick:") {
			continue // trace lines of config:show_* options
		}
		lines = append(lines, l)
	}
	li := 0
	for t, tk := range want.Ticks {
		if len(tk.Shows) == 0 {
			continue
		}
		if li >= len(lines) {
			return fmt.Sprintf("tick %d should show %v, the CLI printed only %d show lines", t, tk.Shows, len(lines))
		}
		toks := strings.Fields(lines[li])
		if len(toks) != len(tk.Shows) {
			return fmt.Sprintf("show line %d is %q, tick %d should show %v", li, lines[li], t, tk.Shows)
		}
		for k, tok := range toks {
			v, err := decodeFormatted(tok, tk.ShowFmt[k])
			if err != nil || v != tk.Shows[k] {
				return fmt.Sprintf("show line %d is %q, tick %d should show %v (%v)", li, lines[li], t, tk.Shows, tk.ShowFmt)
			}
		}
		li++
	}
	if li != len(lines) {
		return fmt.Sprintf("the CLI printed %d show lines, %d expected; first extra: %q", len(lines), li, lines[li])
	}
	recs := nonEmpty(cli.CSV)
	wantHeader := append([]string{}, want.Header...)
	if want.GetTicks {
		wantHeader = append([]string{"tick"}, wantHeader...)
	}
	ri := 0
	if len(wantHeader) > 0 {
		if len(recs) == 0 || strings.Join(recs[0], ",") != strings.Join(wantHeader, ",") {
			return fmt.Sprintf("report header %q, expected %q", recs, wantHeader)
		}
		ri = 1
	}
	for t, tk := range want.Ticks {
		if !tk.HasRow {
			continue
		}
		if ri >= len(recs) {
			return fmt.Sprintf("tick %d should report %v, the report file has only %d records", t, tk.Row, len(recs))
		}
		rec := recs[ri]
		if len(rec) != len(wantHeader) {
			return fmt.Sprintf("report record %d has %d fields for %d columns", ri, len(rec), len(wantHeader))
		}
		for k, name := range wantHeader {
			if name == "tick" && k == 0 && want.GetTicks {
				if rec[0] != tk.RowTick {
					return fmt.Sprintf("report record %d carries tick %q, expected %q", ri, rec[0], tk.RowTick)
				}
				continue
			}
			wv, has := tk.Row[name]
			if !has {
				if rec[k] != "" {
					return fmt.Sprintf("report record %d (tick %d) has %s=%q, nothing should be reported there", ri, t, name, rec[k])
				}
				continue
			}
			v, err := decodeFormatted(rec[k], want.ColFmt[name])
			if err != nil || v != wv {
				return fmt.Sprintf("report record %d (tick %d) has %s=%q, expected %d (%s)", ri, t, name, rec[k], wv, want.ColFmt[name])
			}
		}
		ri++
	}
	if ri != len(recs) {
		return fmt.Sprintf("the report file has %d records, %d expected; first extra: %q", len(recs), ri, recs[ri])
	}
	return ""
}

func propCLI(c SimCase) pbt.Outcome {
	active, err := activeRules(c.Rules)
	if err != nil {
		return pbt.Outcome{Fail: pbt.Failf("harness", "%v", err)}
	}
	cls := classify(c, active)
	if cls.excluded != "" && !c.Probe {
		return pbt.Outcome{Excluded: cls.excluded, Labels: uniq(cls.labels)}
	}
	bm, err := buildBM(c.M)
	if err != nil {
		return pbt.Outcome{Fail: pbt.Failf("harness", "machine does not build: %v", err)}
	}
	sbox, err := buildSimbox(c.Rules)
	if err != nil {
		return pbt.Outcome{Fail: pbt.Failf("history", "%v", err)}
	}
	cli, err := runCLI(c)
	if err != nil {
		if strings.Contains(err.Error(), "timed out") {
			// a deadline hit on a loaded machine is inconclusive, never a violation
			return pbt.Outcome{Excluded: "tool-timeout"}
		}
		return pbt.Outcome{Fail: pbt.Failf("harness", "cannot run the CLI: %v", err)}
	}
	var labels []string

	// ---- 1. the binary against the oracle
	want := predict(c.M, bm, active, c.Ticks, c.StopOn, semantics{})
	hasExit := false
	for _, r := range active {
		if _, ok := resolveObj(c.M, r.Object); ok && r.Class == "onexit" {
			hasExit = true
		}
	}
	switch {
	case strings.HasPrefix(want.Err, "unresolved:"):
		if cli.Exit == 0 {
			return pbt.Outcome{Fail: pbt.Failf("unresolved-accepted", "the CLI ran a rule over an object the machine does not have\n%s", describe(c))}
		}
		// refusing is fine; propSim below turns the documented names into the recorded finding when probing
	case want.Err != "":
		return pbt.Outcome{Fail: pbt.Failf("harness", "predictor: %s\n%s", want.Err, describe(c))}
	case hasExit && want.Shut == -1 && !c.Probe:
		return pbt.Outcome{Excluded: "onexit-not-fired-at-budget-end", Labels: uniq(cls.labels)}
	default:
		if diff := judgeCLI(cli, want); diff != "" {
			sig := "cli-mismatch"
			for _, alt := range []struct {
				sig string
				sem semantics
			}{
				{"periodic-set-ignored", semantics{NoPeriodicSet: true}},
				{"event-get-ignored", semantics{NoEventGet: true}},
				{"onexit-not-fired-at-budget-end", semantics{NoExitAtEnd: true}},
				{"periodic-set-steals-valid", semantics{NoPeriodicSet: true, StealsValid: true}},
			} {
				if judgeCLI(cli, predict(c.M, bm, active, c.Ticks, c.StopOn, alt.sem)) == "" {
					sig = alt.sig
					break
				}
			}
			if cli.Exit != 0 && cls.excluded == "format-unimplemented" {
				sig = "format-unimplemented"
			}
			return pbt.Outcome{Labels: uniq(cls.labels), Fail: pbt.Failf(sig, "bondmachine -sim differs from the prediction: %s\n%s", diff, describe(c))}
		}
		labels = append(labels, "cli:as-predicted")
		if len(cli.Stdout) > 0 {
			labels = append(labels, "cli:stdout-lines")
		}
		if len(nonEmpty(cli.CSV)) > 1 {
			labels = append(labels, "cli:report-rows")
		}
	}

	// ---- 2. the loop copy used by sim_rules against the binary (keeps the copy honest)
	rep := runReplica(c.M, bm, sbox, c.Ticks, c.StopOn)
	perProc := false // per-processor traces are printed in goroutine arrival order
	for _, r := range active {
		if r.Class == "config" && (strings.HasPrefix(r.Object, "show_p") || r.Object == "show_instruction" || r.Object == "show_disasm") {
			perProc = true
		}
	}
	switch {
	case rep.Err != "":
		// the copy returns where the CLI panics (check(err): exit status 2) or calls log.Fatal (exit status 1)
		wantExit := 2
		if strings.HasPrefix(rep.Err, "fatal:") {
			wantExit = 1
		}
		msg := rep.Err[strings.Index(rep.Err, ":")+1:]
		if cli.Exit != wantExit || !strings.Contains(cli.Stderr, msg) {
			return pbt.Outcome{Fail: pbt.Failf("replica-drift", "the loop copy stops with %q, the CLI exits %d with stderr %q\n%s", rep.Err, cli.Exit, firstLines(cli.Stderr, 3), describe(c))}
		}
		labels = append(labels, "cli:exit-"+strconv.Itoa(cli.Exit))
	default:
		if cli.Exit != 0 {
			return pbt.Outcome{Fail: pbt.Failf("replica-drift", "the CLI exits %d (stderr %q), the loop copy completes\n%s", cli.Exit, firstLines(cli.Stderr, 3), describe(c))}
		}
		a, b := append([]string{}, rep.Stdout...), append([]string{}, cli.Stdout...)
		if perProc {
			sort.Strings(a)
			sort.Strings(b)
		}
		if strings.Join(a, "\n") != strings.Join(b, "\n") {
			return pbt.Outcome{Fail: pbt.Failf("replica-drift", "stdout of the CLI:\n%s\nstdout of the loop copy:\n%s\n%s", strings.Join(cli.Stdout, "\n"), strings.Join(rep.Stdout, "\n"), describe(c))}
		}
		if fmt.Sprintf("%q", nonEmpty(rep.CSV)) != fmt.Sprintf("%q", nonEmpty(cli.CSV)) {
			return pbt.Outcome{Fail: pbt.Failf("replica-drift", "report of the CLI: %q\nreport of the loop copy: %q\n%s", cli.CSV, rep.CSV, describe(c))}
		}
		labels = append(labels, "cli:same-as-copy")
	}

	// ---- 3. everything sim_rules checks (state traces, metamorphic re-runs, non-triviality)
	out := propSim(c)
	out.Labels = uniq(append(out.Labels, labels...))
	return out
}

func firstLines(s string, n int) string {
	l := strings.Split(s, "\n")
	if len(l) > n {
		l = l[:n]
	}
	return strings.Join(l, "\n")
}
