// C15 — simulation rules are applied exactly as written.
//
//	rule_roundtrip  (a) grammar of Simbox.Add / docs/simbox-rules.md, stateful histories, JSON rule file
//	sim_rules       (b) generated machines x generated rule lists, CLI `-sim` loop replica vs. trace predictor
//	sim_pipeline    (b) Bondmachine.SinglePipelineSimulate (its own absolute:0:set / onexit:show rules)
//	cli_rules       (b) the real `bondmachine -sim` binary vs. the replica and the predictor
//	FuzzSimboxAdd   (c) native fuzz target (rules_test.go)
package c15

import (
	"fmt"
	"sort"
	"strings"
	"testing"

	"pgregory.net/rapid"
	"verifharness/pbt"
)

type SRule struct {
	Text      string
	Suspended bool // Suspend(i) after the adds
	Deleted   bool // Del(i) after the adds: must be as if never added
}

type SimCase struct {
	M       Mach
	Ticks   int // -sim-interactions
	StopOn  int // -sim-stop-on-valid-of (-1: off)
	Rules   []SRule
	Variant string // none | drop | perm : metamorphic re-run of the simulator
	Perm    []int  // sort keys for the perm variant
	Probe   bool   // true only in replay files of recorded findings: judge inside an excluded class
}

// ---------------------------------------------------------------------------
// generator

func genProg(t *rapid.T, p Proc, rsize int) []string {
	reg := func() string { return fmt.Sprintf("r%d", rapid.IntRange(0, (1<<p.R)-1).Draw(t, "reg")) }
	in := func() string { return fmt.Sprintf("i%d", rapid.IntRange(0, p.N-1).Draw(t, "pin")) }
	out := func() string { return fmt.Sprintf("o%d", rapid.IntRange(0, p.M-1).Draw(t, "pout")) }
	tmpl := rapid.IntRange(0, 9).Draw(t, "tmpl")
	switch tmpl {
	case 0: // echo loop
		r := reg()
		return []string{"i2r " + r + " " + in(), "inc " + r, "r2o " + r + " " + out(), "j 0"}
	case 1: // accumulate
		return []string{"i2r r1 " + in(), "add r0 r1", "r2o r0 " + out(), "j 0"}
	case 2: // straight line ending in a handshaked write
		return []string{"i2r r0 " + in(), "inc r0", "r2owa r0 " + out()}
	case 3: // counter
		return []string{"inc r0", "r2o r0 " + out(), "j 0"}
	case 4: // handshaked consumer
		return []string{"i2rw r0 " + in(), "r2o r0 " + out(), "j 0"}
	}
	kinds := []string{"i2r", "i2r", "i2r", "i2r", "r2o", "r2o", "r2o", "r2o", "inc", "inc", "inc", "add", "add", "rset", "rset",
		"cpy", "dec", "clr", "nop", "j", "j", "r2owa", "i2rw"}
	n := rapid.IntRange(1, 8).Draw(t, "plen")
	var prog []string
	for i := 0; i < n; i++ {
		switch k := rapid.SampledFrom(kinds).Draw(t, "op"); k {
		case "i2r", "i2rw":
			prog = append(prog, k+" "+reg()+" "+in())
		case "r2o", "r2owa":
			prog = append(prog, k+" "+reg()+" "+out())
		case "inc", "dec", "clr":
			prog = append(prog, k+" "+reg())
		case "add", "cpy":
			prog = append(prog, k+" "+reg()+" "+reg())
		case "rset":
			prog = append(prog, fmt.Sprintf("rset %s %d", reg(), rapid.IntRange(0, (1<<rsize)-1).Draw(t, "imm")))
		case "nop":
			prog = append(prog, "nop")
		case "j":
			prog = append(prog, fmt.Sprintf("j %d", rapid.IntRange(0, n).Draw(t, "target")))
		}
	}
	if rapid.Bool().Draw(t, "loop") {
		prog = append(prog, "j 0")
	}
	return prog
}

func genMach(t *rapid.T) Mach {
	m := Mach{Rsize: rapid.SampledFrom([]int{8, 8, 8, 16}).Draw(t, "rsize")}
	m.Inputs = rapid.IntRange(1, 2).Draw(t, "inputs")
	m.Outputs = rapid.IntRange(1, 2).Draw(t, "outputs")
	np := rapid.IntRange(1, 2).Draw(t, "nproc")
	for i := 0; i < np; i++ {
		p := Proc{N: rapid.IntRange(1, 2).Draw(t, "N"), M: rapid.IntRange(1, 2).Draw(t, "M"), R: rapid.IntRange(1, 2).Draw(t, "R")}
		p.Prog = genProg(t, p, m.Rsize)
		m.Procs = append(m.Procs, p)
	}
	var sources []string
	for i := 0; i < m.Inputs; i++ {
		sources = append(sources, fmt.Sprintf("i%d", i), fmt.Sprintf("i%d", i)) // weight 2
	}
	var pouts []string
	for x, p := range m.Procs {
		for k := 0; k < p.M; k++ {
			pouts = append(pouts, fmt.Sprintf("p%do%d", x, k))
		}
	}
	for x, p := range m.Procs {
		for k := 0; k < p.N; k++ {
			cand := append(append([]string{""}, sources...), pouts...)
			if s := rapid.SampledFrom(cand).Draw(t, "src"); s != "" {
				m.Bonds = append(m.Bonds, [2]string{fmt.Sprintf("p%di%d", x, k), s})
			}
		}
	}
	for k := 0; k < m.Outputs; k++ {
		cand := append(append([]string{"", fmt.Sprintf("i%d", rapid.IntRange(0, m.Inputs-1).Draw(t, "thru"))}, pouts...), pouts...)
		if s := rapid.SampledFrom(cand).Draw(t, "osrc"); s != "" {
			m.Bonds = append(m.Bonds, [2]string{fmt.Sprintf("o%d", k), s})
		}
	}
	return m
}

func genValue(t *rapid.T, rsize int) string {
	max := (1 << rsize) - 1
	v := rapid.OneOf(rapid.SampledFrom([]int{0, 1, 2, max, max - 1, max / 2, max/2 + 1}), rapid.IntRange(0, max)).Draw(t, "value")
	switch rapid.IntRange(0, 9).Draw(t, "lit") {
	case 0, 1:
		return fmt.Sprintf("0x%x", v)
	case 2:
		return fmt.Sprintf("0b%b", v)
	case 3:
		// decimal with leading zeros (bmnumbers reads it as decimal, not as C-style octal)
		return strings.Repeat("0", rapid.IntRange(1, 2).Draw(t, "zeros")) + fmt.Sprintf("%d", v)
	case 4:
		return fmt.Sprintf("0d%d", v)
	}
	return fmt.Sprintf("%d", v)
}

var simRuleKinds = []string{
	"abs/set", "abs/set", "abs/set", "abs/set", "abs/set", "abs/set", "abs/set", "abs/set",
	"abs/get", "abs/get", "abs/get", "abs/get", "abs/get", "abs/get", "abs/show", "abs/show", "abs/show", "abs/show",
	"rel/get", "rel/get", "rel/get", "rel/get", "rel/show", "rel/show", "rel/show",
	"onvalid/show", "onvalid/show", "onvalid/show", "onexit/show", "onexit/show", "onexit/show",
	"get_ticks", "get_ticks",
	"rel/set", "onvalid/get", "onexit/get", "onrecv", "get_all", "show_all", "odd",
}

func genSimCase(t *rapid.T) SimCase {
	var c SimCase
	c.M = genMach(t)
	c.Ticks = rapid.IntRange(1, 20).Draw(t, "ticks")
	c.StopOn = -1
	if rapid.IntRange(0, 9).Draw(t, "stop") < 4 {
		c.StopOn = rapid.IntRange(0, c.M.Outputs-1).Draw(t, "stopOn")
	}
	closing := c.StopOn >= 0 && rapid.IntRange(0, 9).Draw(t, "closing") < 7
	if closing {
		if c.Ticks < 12 {
			c.Ticks += 8
		}
		// make the watched output reachable: processor 0 ends in a handshaked write bonded to it
		p := &c.M.Procs[0]
		if n := len(p.Prog); n > 1 && p.Prog[n-1] == "j 0" {
			p.Prog = p.Prog[:n-1]
		}
		k := rapid.IntRange(0, p.M-1).Draw(t, "closeOut")
		p.Prog = append(p.Prog, fmt.Sprintf("r2owa r0 o%d", k))
		sink := fmt.Sprintf("o%d", c.StopOn)
		var bonds [][2]string
		for _, b := range c.M.Bonds {
			if b[0] != sink {
				bonds = append(bonds, b)
			}
		}
		c.M.Bonds = append(bonds, [2]string{sink, fmt.Sprintf("p0o%d", k)})
	}
	objs := allObjects(c.M)
	var ins []string
	for i := 0; i < c.M.Inputs; i++ {
		ins = append(ins, fmt.Sprintf("i%d", i))
	}
	obj := func() string {
		if rapid.IntRange(0, 2).Draw(t, "objpick") == 0 {
			return rapid.SampledFrom(ins).Draw(t, "objin")
		}
		return rapid.SampledFrom(objs).Draw(t, "obj")
	}
	// one display format per object and case (the first get/show rule of an object decides its column type)
	formatOf := map[string]string{}
	format := func(o string) string {
		if f, ok := formatOf[o]; ok {
			return f
		}
		f := rapid.SampledFrom([]string{"unsigned", "unsigned", "unsigned", "hex", "bin"}).Draw(t, "format")
		formatOf[o] = f
		return f
	}
	tick := func() int {
		return rapid.OneOf(rapid.IntRange(0, 3), rapid.IntRange(0, c.Ticks)).Draw(t, "tick")
	}
	period := func() int { return rapid.SampledFrom([]int{1, 1, 2, 2, 3, 4, 5, 7}).Draw(t, "period") }
	n := rapid.IntRange(1, 9).Draw(t, "nrules")
	for i := 0; i < n; i++ {
		var text string
		switch k := rapid.SampledFrom(simRuleKinds).Draw(t, "rkind"); k {
		case "abs/set":
			text = fmt.Sprintf("absolute:%d:set:%s:%s", tick(), obj(), genValue(t, c.M.Rsize))
		case "rel/set":
			text = fmt.Sprintf("relative:%d:set:%s:%s", period(), obj(), genValue(t, c.M.Rsize))
		case "abs/get", "abs/show":
			o := obj()
			text = fmt.Sprintf("absolute:%d:%s:%s:%s", tick(), k[4:], o, format(o))
		case "rel/get", "rel/show":
			o := obj()
			text = fmt.Sprintf("relative:%d:%s:%s:%s", period(), k[4:], o, format(o))
		case "onvalid/show", "onvalid/get", "onexit/show", "onexit/get":
			o := obj()
			if strings.HasPrefix(k, "onvalid") && rapid.IntRange(0, 3).Draw(t, "vobj") > 0 {
				// objects that have a valid flag: the external inputs and outputs
				o = rapid.SampledFrom(objs[:c.M.Inputs+c.M.Outputs]).Draw(t, "vobjname")
			}
			text = strings.Replace(k, "/", ":", 1) + ":" + o
			if f := format(o); f != "unsigned" || rapid.Bool().Draw(t, "explicit") {
				text += ":" + f
			}
		case "onrecv":
			text = "onrecv:" + rapid.SampledFrom([]string{"get", "show"}).Draw(t, "ract") + ":" + obj()
		case "get_ticks":
			text = "config:get_ticks"
		case "get_all":
			text = "config:" + rapid.SampledFrom([]string{"get_all", "get_all_internal"}).Draw(t, "bulk") + ":" + rapid.SampledFrom([]string{"unsigned", "hex"}).Draw(t, "bulkf")
		case "show_all":
			text = "config:" + rapid.SampledFrom([]string{"show_all", "show_all_internal"}).Draw(t, "bulk") + ":" + rapid.SampledFrom([]string{"unsigned", "hex"}).Draw(t, "bulkf")
		case "odd":
			// things the docs name or that resolve but are not plain value objects
			text = rapid.SampledFrom([]string{
				"absolute:1:set:r0:42", "relative:2:get:memory_0:signed", "absolute:1:get:io_input:signed", "onexit:show:r2",
				"absolute:1:get:" + ins[0] + ":signed", "relative:2:show:" + ins[0] + ":binary", "absolute:1:set:" + ins[0] + "v:1",
				"absolute:0:get:o0v:unsigned", "relative:0:get:o0:unsigned", "absolute:2:get:i7:unsigned", "absolute:2:set:p5r0:1",
				"config:show_ticks", "config:show_io_pre", "config:show_pc",
			}).Draw(t, "odd")
		}
		r := SRule{Text: text}
		switch rapid.IntRange(0, 9).Draw(t, "state") {
		case 0:
			r.Suspended = true
		case 1:
			r.Deleted = true
		case 2:
			r.Suspended, r.Deleted = true, rapid.Bool().Draw(t, "both")
		}
		c.Rules = append(c.Rules, r)
	}
	// couple events with what triggers them often enough to see them fire
	if closing && rapid.IntRange(0, 9).Draw(t, "exitrule") < 6 {
		o := fmt.Sprintf("o%d", rapid.IntRange(0, c.M.Outputs-1).Draw(t, "exitobj"))
		c.Rules = append(c.Rules, SRule{Text: "onexit:show:" + o + ":" + format(o)})
	}
	if rapid.IntRange(0, 9).Draw(t, "validpair") < 3 {
		in := rapid.SampledFrom(ins).Draw(t, "validin")
		c.Rules = append(c.Rules,
			SRule{Text: fmt.Sprintf("absolute:%d:set:%s:%s", tick(), in, genValue(t, c.M.Rsize))},
			SRule{Text: "onvalid:show:" + in + ":" + format(in)})
	}
	c.Variant = rapid.SampledFrom([]string{"none", "drop", "perm", "perm"}).Draw(t, "variant")
	if c.Variant == "perm" {
		for range c.Rules {
			c.Perm = append(c.Perm, rapid.IntRange(0, 99).Draw(t, "permkey"))
		}
	}
	return c
}

// ---------------------------------------------------------------------------
// property

var okFormats = map[string]bool{"unsigned": true, "hex": true, "bin": true}
var docObject = map[string]bool{"io_input": true, "io_output": true}

func isDocObjectName(s string) bool {
	if docObject[s] {
		return true
	}
	for _, pre := range []string{"r", "memory_", "io_"} {
		if strings.HasPrefix(s, pre) && reDocTick.MatchString(s[len(pre):]) {
			return true
		}
	}
	return false
}

type simClass struct {
	excluded string // "" or the class that takes the case out of the judged domain
	labels   []string
}

// classify looks only at the case (never at what the simulator did).
func classify(c SimCase, active []mrule) simClass {
	var sc simClass
	first := func(s string) {
		if sc.excluded == "" {
			sc.excluded = s
		}
	}
	for _, r := range active {
		sc.labels = append(sc.labels, "rule:"+r.form())
		if r.Class == "config" {
			if cfgBulk[r.Object] && !okFormats[r.Extra] {
				first("ood:format-unknown")
			}
			continue
		}
		o, ok := resolveObj(c.M, r.Object)
		switch {
		case !ok && isDocObjectName(r.Object):
			sc.labels = append(sc.labels, "obj:doc-name")
			first("doc-object-names-unresolved")
		case !ok:
			sc.labels = append(sc.labels, "obj:absent")
		case o.isFlag():
			sc.labels = append(sc.labels, "obj:flag")
			first("ood:flag-object")
		default:
			sc.labels = append(sc.labels, "obj:"+o.kind)
		}
		if r.Class == "relative" && r.Tick == 0 {
			first("ood:period-zero")
		}
		if r.Class == "onrecv" {
			continue // documented, but the statement is silent about it and nothing consumes it: no expectation
		}
		if r.Action != "set" && !okFormats[r.Extra] {
			if r.Extra == "signed" || r.Extra == "binary" {
				first("format-unimplemented")
			} else {
				first("ood:format-unknown")
			}
		}
		if ok && !o.isFlag() {
			if r.Class == "relative" && r.Action == "set" && r.Tick != 0 {
				first("periodic-set-ignored")
			}
			if (r.Class == "onvalid" || r.Class == "onexit") && r.Action == "get" {
				first("event-get-ignored")
			}
		}
	}
	return sc
}

func activeRules(rules []SRule) ([]mrule, error) {
	var out []mrule
	for _, r := range rules {
		mr, ok := modelParse(r.Text)
		if !ok {
			return nil, fmt.Errorf("generator produced %q, outside the rule grammar", r.Text)
		}
		if r.Suspended || r.Deleted {
			continue
		}
		out = append(out, mr)
	}
	return out, nil
}

func uniq(ls []string) []string {
	sort.Strings(ls)
	out := ls[:0]
	for i, l := range ls {
		if i == 0 || l != ls[i-1] {
			out = append(out, l)
		}
	}
	return out
}

func describe(c SimCase) string {
	var sb strings.Builder
	fmt.Fprintf(&sb, "machine rsize=%d inputs=%d outputs=%d bonds=%v", c.M.Rsize, c.M.Inputs, c.M.Outputs, c.M.Bonds)
	for i, p := range c.M.Procs {
		fmt.Fprintf(&sb, " p%d(N=%d M=%d R=%d)[%s]", i, p.N, p.M, p.R, strings.Join(p.Prog, "; "))
	}
	fmt.Fprintf(&sb, " ticks=%d stop-on-valid-of=%d rules:", c.Ticks, c.StopOn)
	for _, r := range c.Rules {
		st := ""
		if r.Suspended {
			st += " [suspended]"
		}
		if r.Deleted {
			st += " [deleted]"
		}
		fmt.Fprintf(&sb, " %q%s", r.Text, st)
	}
	return sb.String()
}

func propSim(c SimCase) pbt.Outcome {
	active, err := activeRules(c.Rules)
	if err != nil {
		return pbt.Outcome{Fail: pbt.Failf("harness", "%v", err)}
	}
	cls := classify(c, active)
	labels := cls.labels
	for _, r := range c.Rules {
		if r.Suspended {
			labels = append(labels, "suspended")
		}
		if r.Deleted {
			labels = append(labels, "deleted")
		}
	}
	if cls.excluded != "" && !c.Probe {
		return pbt.Outcome{Excluded: cls.excluded, Labels: uniq(labels)}
	}
	bm, err := buildBM(c.M)
	if err != nil {
		return pbt.Outcome{Fail: pbt.Failf("harness", "machine does not build: %v", err)}
	}
	sbox, err := buildSimbox(c.Rules)
	if err != nil {
		return pbt.Outcome{Fail: pbt.Failf("history", "%v", err)}
	}
	// the list the simulator is given must be the surviving rules, in order, with their flags
	{
		var want []SRule
		for _, r := range c.Rules {
			if !r.Deleted {
				want = append(want, r)
			}
		}
		if len(sbox.Rules) != len(want) {
			return pbt.Outcome{Fail: pbt.Failf("history", "simbox holds %d rules after the history, expected %d\n%s", len(sbox.Rules), len(want), describe(c))}
		}
		for i, r := range sbox.Rules {
			got, _ := ruleToModel(r)
			exp, _ := modelParse(want[i].Text)
			if !sameRule(got, exp) || r.Suspended != want[i].Suspended {
				return pbt.Outcome{Fail: pbt.Failf("history", "rule %d after the history is %s, expected %q suspended=%v\n%s", i, rf(r), want[i].Text, want[i].Suspended, describe(c))}
			}
		}
	}

	got := runReplica(c.M, bm, sbox, c.Ticks, c.StopOn)
	want := predict(c.M, bm, active, c.Ticks, c.StopOn, semantics{})

	// unresolvable object: refusing the run is an acceptable outcome; running must then ignore the rule
	if strings.HasPrefix(want.Err, "unresolved:") {
		if got.Err != "" {
			labels = append(labels, "outcome:unresolved-refused")
			if c.Probe && cls.excluded == "doc-object-names-unresolved" {
				return pbt.Outcome{Labels: uniq(labels), Fail: pbt.Failf("doc-object-names-unresolved",
					"a rule over an object name documented in docs/simbox-rules.md (section Objects) is refused: %s\n%s", got.Err, describe(c))}
			}
			return pbt.Outcome{Labels: uniq(labels)}
		}
		return pbt.Outcome{Labels: uniq(labels), Fail: pbt.Failf("unresolved-accepted", "rule over an object the machine does not have was accepted silently\n%s", describe(c))}
	}
	if want.Err != "" {
		return pbt.Outcome{Fail: pbt.Failf("harness", "predictor: %s\n%s", want.Err, describe(c))}
	}

	// budget end with on-exit rules: decided with the predicted run in hand
	hasExit := false
	for _, r := range active {
		if r.Class == "onexit" {
			if _, ok := resolveObj(c.M, r.Object); ok {
				hasExit = true
			}
		}
	}
	if hasExit && want.Shut == -1 && !c.Probe {
		return pbt.Outcome{Excluded: "onexit-not-fired-at-budget-end", Labels: uniq(labels)}
	}

	if diff := compareRuns(got, want, false); diff != "" {
		sig := "mismatch"
		// name the mechanism when the run equals the prediction under exactly one recorded defect
		for _, alt := range []struct {
			sig string
			sem semantics
		}{
			{"periodic-set-ignored", semantics{NoPeriodicSet: true}},
			{"event-get-ignored", semantics{NoEventGet: true}},
			{"onexit-not-fired-at-budget-end", semantics{NoExitAtEnd: true}},
			{"periodic-set-steals-valid", semantics{NoPeriodicSet: true, StealsValid: true}},
		} {
			if compareRuns(got, predict(c.M, bm, active, c.Ticks, c.StopOn, alt.sem), false) == "" {
				sig = alt.sig
				break
			}
		}
		if got.Err != "" && cls.excluded == "format-unimplemented" {
			sig = "format-unimplemented"
		}
		return pbt.Outcome{Labels: uniq(labels), Fail: pbt.Failf(sig, "simulation differs from the prediction: %s\n%s", diff, describe(c))}
	}

	// ---- (i) said directly, without the oracle's VM: right after the injections of tick T the object named by an
	// active absolute:T:set holds the stated value (the last such rule in list order when several name it), and an
	// external input is flagged valid
	{
		last := map[string]mrule{}
		for _, r := range active {
			if r.Class == "absolute" && r.Action == "set" {
				last[fmt.Sprintf("%d/%s", r.Tick, r.Object)] = r
			}
		}
		for _, r := range last {
			if r.Tick >= uint64(len(got.Ticks)) || got.Ticks[r.Tick].Pre == "" {
				continue // beyond the run, or the run had shut down
			}
			v, _ := parseSetValue(r.Extra)
			f, ok := snapField(got.Ticks[r.Tick].Pre, r.Object)
			if !ok || f != fmt.Sprint(v) {
				return pbt.Outcome{Labels: uniq(labels), Fail: pbt.Failf("set-not-applied", "%s=%s entering the step of tick %d, rule %q says %d\n%s", r.Object, f, r.Tick, r.Class+":"+fmt.Sprint(r.Tick)+":set:"+r.Object+":"+r.Extra, v, describe(c))}
			}
			if o, _ := resolveObj(c.M, r.Object); o.input >= 0 {
				if iv, _ := snapField(got.Ticks[r.Tick].Pre, "iv"); len(iv) <= o.input || iv[o.input] != '1' {
					return pbt.Outcome{Labels: uniq(labels), Fail: pbt.Failf("set-without-valid", "external input %s is set at tick %d and not flagged valid (valid flags %s)\n%s", r.Object, r.Tick, iv, describe(c))}
				}
			}
		}
	}

	// ---- non-triviality: reference run without any set rule
	var noSets []mrule
	for _, r := range active {
		if r.Action != "set" {
			noSets = append(noSets, r)
		}
	}
	nSets := len(active) - len(noSets)
	changes := false
	if nSets > 0 {
		ref := predict(c.M, bm, noSets, c.Ticks, c.StopOn, semantics{})
		for t := range want.Ticks {
			if t >= len(ref.Ticks) || ref.Ticks[t].Post != want.Ticks[t].Post {
				changes = true
			}
		}
		if len(ref.Ticks) != len(want.Ticks) {
			changes = true
		}
		// (i) before its tick a set leaves no trace: the run equals the reference up to the first injection
		firstSet := uint64(1 << 62)
		for _, r := range active {
			if r.Action == "set" && r.Class == "absolute" && r.Tick < firstSet {
				firstSet = r.Tick
			}
		}
		for t := 0; t < len(got.Ticks) && uint64(t) < firstSet && t < len(ref.Ticks); t++ {
			if got.Ticks[t].Post != ref.Ticks[t].Post {
				return pbt.Outcome{Labels: uniq(labels), Fail: pbt.Failf("early-effect", "tick %d differs from the rule-free reference although the first set is at tick %d\n%s", t, firstSet, describe(c))}
			}
		}
	}
	rows, shows := 0, 0
	for _, tk := range got.Ticks {
		if tk.HasRow && len(tk.Row) > 0 {
			rows++
		}
		if len(tk.Shows) > 0 {
			shows++
		}
	}
	if changes {
		labels = append(labels, "set-changes-trace")
	}
	if rows > 0 {
		labels = append(labels, "report-row")
	}
	if shows > 0 {
		labels = append(labels, "show-line")
	}
	if got.Shut >= 0 {
		labels = append(labels, "shut-on-valid")
	}
	for k, n := range want.Fired {
		if n > 0 && (k == "onvalid" || k == "onexit") {
			labels = append(labels, k+"-fired")
		}
	}
	// ---- metamorphic re-runs of the simulator itself
	switch c.Variant {
	case "drop":
		var kept []SRule
		for _, r := range c.Rules {
			if !r.Suspended && !r.Deleted {
				kept = append(kept, SRule{Text: r.Text})
			}
		}
		sb2, err := buildSimbox(kept)
		if err != nil {
			return pbt.Outcome{Fail: pbt.Failf("history", "%v", err)}
		}
		got2 := runReplica(c.M, bm, sb2, c.Ticks, c.StopOn)
		if diff := compareRuns(got, got2, false); diff != "" {
			return pbt.Outcome{Labels: uniq(labels), Fail: pbt.Failf("suspended-or-deleted-not-inert", "the run with suspended/deleted rules differs from the run of the list without them: %s\n%s", diff, describe(c))}
		}
		// (per-processor trace lines of config:show_pc & co. arrive in goroutine order: compare as a multiset)
		so1, so2 := append([]string{}, got.Stdout...), append([]string{}, got2.Stdout...)
		sort.Strings(so1)
		sort.Strings(so2)
		if strings.Join(so1, "\n") != strings.Join(so2, "\n") || fmt.Sprint(got.CSV) != fmt.Sprint(got2.CSV) {
			return pbt.Outcome{Labels: uniq(labels), Fail: pbt.Failf("suspended-or-deleted-not-inert", "printed output changes when suspended/deleted rules are removed\n%s", describe(c))}
		}
		labels = append(labels, "variant:drop")
	case "perm":
		// independent = no two active sets on the same object at the same tick
		seen := map[string]bool{}
		indep := true
		for _, r := range active {
			if r.Action == "set" {
				k := fmt.Sprintf("%s@%d", r.Object, r.Tick)
				if seen[k] {
					indep = false
				}
				seen[k] = true
			}
		}
		if !indep || len(c.Perm) != len(c.Rules) {
			labels = append(labels, "variant:perm-skipped")
			break
		}
		idx := make([]int, len(c.Rules))
		for i := range idx {
			idx[i] = i
		}
		sort.SliceStable(idx, func(a, b int) bool { return c.Perm[idx[a]] < c.Perm[idx[b]] })
		var permuted []SRule
		moved := false
		for i, j := range idx {
			permuted = append(permuted, c.Rules[j])
			if i != j {
				moved = true
			}
		}
		sb2, err := buildSimbox(permuted)
		if err != nil {
			return pbt.Outcome{Fail: pbt.Failf("history", "%v", err)}
		}
		got2 := runReplica(c.M, bm, sb2, c.Ticks, c.StopOn)
		if diff := compareRuns(got, got2, true); diff != "" {
			return pbt.Outcome{Labels: uniq(labels), Fail: pbt.Failf("order-dependence", "independent rules in another order give another run: %s\n%s", diff, describe(c))}
		}
		if moved {
			labels = append(labels, "variant:perm")
		}
	}
	return pbt.Outcome{NonTrivial: changes && (rows > 0 || shows > 0), Labels: uniq(labels)}
}

var Props = []*pbt.Entry{
	pbt.Def("rule_roundtrip", ruleRoundtripRule, genRT, propRT),
	pbt.Def("sim_rules",
		"machines of 1..2 processors (2..4 registers, 1..2 ports each, rsize 8|16) running 1..10-line programs over "+
			"{add clr cpy dec i2r i2rw inc j nop r2o r2owa rset}, 1..2 external inputs/outputs bonded to the ports; 1..12 rules over the objects "+
			"GetElementLocation resolves (iK oK pXiK pXoK pXrK; a few absent, flag and documented-but-unresolved names) built by Add, Suspend and "+
			"Del and passed through the JSON rule file; run by a statement-by-statement copy of the `-sim` loop of cmd/bondmachine "+
			"(1..28 interactions, optional -sim-stop-on-valid-of). Oracle: own rule parser + own object table + a fresh VM poked directly; "+
			"full machine state before and after every tick, show lines, report header and rows must agree; an absolute set must be visible "+
			"in the state entering its tick (with valid raised on an external input) and the run must equal the set-free reference before "+
			"the first set. Tick convention (docs silent, from the CLI loop): absolute:T:set is injected before the step of iteration T "+
			"(0-based); get/show of tick T sample after that step; relative:P fires when T%P==0; onvalid fires on the tick whose step leaves "+
			"the flag high after it was low; onexit fires on the iteration that shuts the run down. One metamorphic re-run per case (drop "+
			"suspended+deleted rules / permute independent rules). Excluded by class and counted: the recorded findings periodic-set-ignored, "+
			"event-get-ignored, onexit-not-fired-at-budget-end, format-unimplemented, doc-object-names-unresolved, and out-of-domain rules "+
			"(period 0, flag objects, unknown formats). "+
			"non-trivial = >=1 active set changes the state trace w.r.t. the set-free reference AND >=1 report row or show line is produced",
		genSimCase, propSim),
	pbt.Def("sim_pipeline",
		"machines of 1..2 processors, 1..2 inputs, 1..3 outputs whose last output is bonded to a processor running straight-line code that ends in "+
			"r2owa (so the run ends); 0..all input values; display type unsigned|hex|bin; run by Bondmachine.SinglePipelineSimulate, which itself writes "+
			"absolute:0:set:iK:v and onexit:show:oK:type rules. Oracle: a fresh VM poked with the values (valid raised) before the first step, stepped "+
			"until the last output is valid; exactly one value per output, equal to the output registers at that moment. "+
			"non-trivial = the shown outputs differ from those of the all-zero input run",
		genPipe, propPipe),
	pbt.Def("cli_rules",
		"same cases as sim_rules, run by the real `bondmachine -sim -simbox-file -sim-report [-sim-stop-on-valid-of]` binary ($VERIF_TOOLS) in a scratch "+
			"directory under a 30 s timeout; its stdout and report file must equal what the loop copy used by sim_rules prints (signature replica-drift "+
			"otherwise: a harness defect), then the case is judged exactly like sim_rules. non-trivial = as sim_rules",
		genSimCase, propCLI),
}

func TestProps(t *testing.T)  { pbt.RunAll(t, "C15", Props) }
func TestReplay(t *testing.T) { pbt.ReplayAll(t, "C15", Props) }
