// C15 (a) — every rule prints to a string that parses back to the same rule; histories; rule files.
// C15 (c) — FuzzSimboxAdd.
package c15

import (
	"encoding/json"
	"fmt"
	"strings"
	"testing"
	"unicode/utf8"

	"github.com/BondMachineHQ/BondMachine/pkg/simbox"
	"pgregory.net/rapid"
	"verifharness/pbt"
)

type RTOp struct {
	Kind string // add del suspend reactivate saveload
	Text string // add
	Idx  int    // del suspend reactivate (0..len+2: beyond the list must be refused without effect)
}

type RTCase struct{ Ops []RTOp }

const ruleRoundtripRule = "histories of 1..30 operations {Add(string), Del, Suspend, Reactivate, save+load through the JSON rule file} on one Simbox; " +
	"rule strings from the grammar of docs/simbox-rules.md and of Simbox.Add: 6 time classes x {set,get,show,config options} x object name forms " +
	"(iK oK pXiK pXoK pXrK, valid/recv variants, the docs' rN memory_N io_N io_input io_output, empty/odd strings) x extras " +
	"(unsigned signed hex binary bin, decimal/0x/0b/0f literals, omitted, empty), ticks boundary-weighted over 0..2^31 (also 2^32, 2^63-1, " +
	"signed and padded spellings), plus near-miss strings Add must refuse. Oracle: an accepted rule r satisfies Add(r.String()) == r field-wise; " +
	"strings in the documented grammar are accepted with the documented fields; after every operation the list equals a model list " +
	"(order, fields, Suspended) and Print() is the model's listing and parses back line-wise; save+load returns the same list. " +
	"non-trivial = >=2 accepted rules of different forms, >=1 successful Del or Suspend while >=2 rules are listed, and >=1 save+load afterwards"

var tickChoices = []string{"0", "1", "2", "7", "10", "100", "65535", "65536", "2147483646", "2147483647", "2147483648", "2147483649",
	"4294967295", "4294967296", "9223372036854775807", "9223372036854775808", "18446744073709551615", "-1", "-0", "+5", "007", "", " 1", "1e3", "0x10", "ten"}

func genTickStr(t *rapid.T) string {
	switch rapid.IntRange(0, 9).Draw(t, "tickclass") {
	case 0, 1, 2, 3:
		return rapid.SampledFrom(tickChoices).Draw(t, "tickb")
	case 4, 5:
		k := rapid.IntRange(0, 31).Draw(t, "pow")
		d := rapid.IntRange(-1, 1).Draw(t, "delta")
		v := int64(1)<<uint(k) + int64(d)
		if v < 0 {
			v = 0
		}
		return fmt.Sprint(v)
	}
	return fmt.Sprint(rapid.Int64Range(0, 1<<31).Draw(t, "tickv"))
}

var oddStrings = []string{"", " ", "r 0", "[SUSPENDED]", "x [SUSPENDED]", "é", "日本", "a-b", "000 - ", "\t", "o0\n", "%d", "\\", "\"q\"", "null"}

func genObject(t *rapid.T) string {
	k := rapid.IntRange(0, 9).Draw(t, "k")
	x := rapid.IntRange(0, 3).Draw(t, "x")
	switch rapid.IntRange(0, 13).Draw(t, "objform") {
	case 0:
		return fmt.Sprintf("i%d", k)
	case 1:
		return fmt.Sprintf("o%d", k)
	case 2:
		return fmt.Sprintf("p%di%d", x, k)
	case 3:
		return fmt.Sprintf("p%do%d", x, k)
	case 4:
		return fmt.Sprintf("p%dr%d", x, k)
	case 5:
		return fmt.Sprintf("%s%d%s", rapid.SampledFrom([]string{"i", "o"}).Draw(t, "io"), k, rapid.SampledFrom([]string{"v", "r"}).Draw(t, "vr"))
	case 6:
		return fmt.Sprintf("r%d", k)
	case 7:
		return fmt.Sprintf("memory_%d", k)
	case 8:
		return fmt.Sprintf("io_%d", k)
	case 9:
		return rapid.SampledFrom([]string{"io_input", "io_output"}).Draw(t, "ioname")
	case 10:
		return rapid.SampledFrom(oddStrings).Draw(t, "oddobj")
	case 11:
		return rapid.StringMatching(`[a-z0-9_]{1,8}`).Draw(t, "identobj")
	}
	return noColon(rapid.String().Draw(t, "anyobj"))
}

var extraChoices = []string{"unsigned", "signed", "hex", "binary", "bin", "float32", "0", "42", "255", "0x2a", "0b101", "0f1.5", "-3", "UNSIGNED", "", " "}

func genExtra(t *rapid.T) string {
	switch rapid.IntRange(0, 9).Draw(t, "extraclass") {
	case 0:
		return rapid.SampledFrom(oddStrings).Draw(t, "oddextra")
	case 1:
		return fmt.Sprint(rapid.Uint64().Draw(t, "numextra"))
	case 2:
		return noColon(rapid.String().Draw(t, "anyextra"))
	}
	return rapid.SampledFrom(extraChoices).Draw(t, "extra")
}

var cfgSimpleList = []string{"show_pc", "show_instruction", "show_disasm", "show_ticks", "get_ticks", "show_proc_regs_pre", "show_proc_regs_post",
	"show_proc_io_pre", "show_proc_io_post", "show_io_pre", "show_io_post"}
var cfgBulkList = []string{"get_all", "get_all_internal", "show_all", "show_all_internal"}

func genRuleText(t *rapid.T) string {
	cls := rapid.SampledFrom([]string{"absolute", "absolute", "relative", "relative", "onvalid", "onrecv", "onexit", "config", "config", "broken"}).Draw(t, "class")
	switch cls {
	case "absolute", "relative":
		act := rapid.SampledFrom([]string{"set", "get", "show", "set", "get", "show", "config", "SET", ""}).Draw(t, "action")
		s := cls + ":" + genTickStr(t) + ":" + act + ":" + genObject(t)
		if rapid.IntRange(0, 9).Draw(t, "short") > 0 {
			s += ":" + genExtra(t)
		}
		return s
	case "onvalid", "onrecv", "onexit":
		act := rapid.SampledFrom([]string{"get", "show", "get", "show", "get", "show", "set", "config"}).Draw(t, "action")
		s := cls + ":" + act + ":" + genObject(t)
		if rapid.Bool().Draw(t, "withextra") {
			s += ":" + genExtra(t)
		}
		return s
	case "config":
		switch rapid.IntRange(0, 5).Draw(t, "cfgform") {
		case 0, 1:
			return "config:" + rapid.SampledFrom(cfgSimpleList).Draw(t, "opt")
		case 2, 3:
			return "config:" + rapid.SampledFrom(cfgBulkList).Draw(t, "bulk") + ":" + genExtra(t)
		case 4:
			return "config:" + rapid.SampledFrom(cfgBulkList).Draw(t, "bulk") // parameter missing
		}
		return "config:" + rapid.SampledFrom(cfgSimpleList).Draw(t, "opt") + ":" + genExtra(t) // parameter not taken
	}
	// near misses
	switch rapid.IntRange(0, 6).Draw(t, "broken") {
	case 0:
		return ""
	case 1:
		return "absolute:1:set:i0:1:extra"
	case 2:
		return "Absolute:1:set:i0:1"
	case 3:
		return "onvalid:get"
	case 4:
		return "config"
	case 5:
		return "config:show_everything"
	}
	return rapid.StringOf(rapid.RuneFrom([]rune("abc:0159 :\n-"))).Draw(t, "noise")
}

// a field cannot hold the separator
func noColon(s string) string { return strings.ReplaceAll(s, ":", "_") }

func genRT(t *rapid.T) RTCase {
	var c RTCase
	n := rapid.IntRange(1, 30).Draw(t, "nops")
	if n < 4 && rapid.Bool().Draw(t, "longer") {
		n += 6
	}
	live := 0
	for i := 0; i < n; i++ {
		k := rapid.SampledFrom([]string{"add", "add", "add", "add", "add", "del", "suspend", "suspend", "reactivate", "saveload", "saveload"}).Draw(t, "kind")
		op := RTOp{Kind: k}
		switch k {
		case "add":
			op.Text = genRuleText(t)
			live++ // upper bound, good enough to aim indices
		case "del", "suspend", "reactivate":
			op.Idx = rapid.IntRange(0, live/2+1).Draw(t, "idx")
		}
		c.Ops = append(c.Ops, op)
	}
	if rapid.IntRange(0, 3).Draw(t, "finalsave") > 0 {
		c.Ops = append(c.Ops, RTOp{Kind: "saveload"})
	}
	return c
}

type modelEntry struct {
	mrule
	Suspended bool
}

func ruleToModel(r simbox.Rule) (mrule, bool) {
	classes := map[uint8]string{simbox.TIMEC_ABS: "absolute", simbox.TIMEC_NONE: "config", simbox.TIMEC_REL: "relative",
		simbox.TIMEC_ON_VALID: "onvalid", simbox.TIMEC_ON_RECV: "onrecv", simbox.TIMEC_ON_EXIT: "onexit"}
	actions := map[uint8]string{simbox.ACTION_SET: "set", simbox.ACTION_GET: "get", simbox.ACTION_SHOW: "show", simbox.ACTION_CONFIG: "config"}
	c, ok1 := classes[r.Timec]
	a, ok2 := actions[r.Action]
	return mrule{Class: c, Tick: r.Tick, Action: a, Object: r.Object, Extra: r.Extra}, ok1 && ok2
}

// rf prints the fields of a rule (Rule is a Stringer: %v would print its rule text instead)
func rf(r simbox.Rule) string {
	return fmt.Sprintf("{Timec:%d Tick:%d Action:%d Object:%q Extra:%q Suspended:%v}", r.Timec, r.Tick, r.Action, r.Object, r.Extra, r.Suspended)
}

func sameRule(a, b mrule) bool {
	return a.Class == b.Class && a.Tick == b.Tick && a.Action == b.Action && a.Object == b.Object && a.Extra == b.Extra
}

// checkRoundTrip: the statement's first sentence for one rule.
func checkRoundTrip(r simbox.Rule) *pbt.Failure {
	s := r.String()
	if s == "" {
		return pbt.Failf("print-empty", "rule %s prints to the empty string", rf(r))
	}
	sb := new(simbox.Simbox)
	if err := sb.Add(s); err != nil {
		return pbt.Failf("print-unparsable", "rule %s prints to %q which Add refuses: %v", rf(r), s, err)
	}
	if len(sb.Rules) != 1 {
		return pbt.Failf("print-unparsable", "Add(%q) left %d rules", s, len(sb.Rules))
	}
	back := sb.Rules[0]
	back.Suspended = r.Suspended
	if back != r {
		return pbt.Failf("roundtrip", "rule %s prints to %q which parses to %s", rf(r), s, rf(sb.Rules[0]))
	}
	return nil
}

func expectedPrint(list []modelEntry, rules []simbox.Rule) string {
	var sb strings.Builder
	for i, e := range list {
		mark := ""
		if e.Suspended {
			mark = " [SUSPENDED]"
		}
		fmt.Fprintf(&sb, "%03d - %s%s\n", i, rules[i].String(), mark)
	}
	return sb.String()
}

func propRT(c RTCase) pbt.Outcome {
	sb := new(simbox.Simbox)
	var model []modelEntry
	labels := map[string]bool{}
	forms := map[string]bool{}
	edited, savedAfterEdit := false, false

	compare := func(step int, op RTOp) *pbt.Failure {
		if len(sb.Rules) != len(model) {
			return pbt.Failf("list", "step %d %+v: %d rules listed, model has %d", step, op, len(sb.Rules), len(model))
		}
		for i, r := range sb.Rules {
			mr, ok := ruleToModel(r)
			if !ok || !sameRule(mr, model[i].mrule) || r.Suspended != model[i].Suspended {
				return pbt.Failf("list", "step %d %+v: rule %d is %s, model has %+v suspended=%v", step, op, i, rf(r), model[i].mrule, model[i].Suspended)
			}
		}
		want := expectedPrint(model, sb.Rules)
		got := sb.Print()
		if got != want {
			return pbt.Failf("print", "step %d %+v: Print() is %q, expected %q", step, op, got, want)
		}
		// Print() parses back line-wise (when no field holds a line break or imitates the marker)
		lines := strings.Split(strings.TrimSuffix(got, "\n"), "\n")
		clean := len(lines) == len(model) || len(model) == 0
		for _, e := range model {
			if strings.ContainsAny(e.Object+e.Extra, "\n") || strings.HasSuffix(e.Extra, " [SUSPENDED]") || strings.HasSuffix(e.Object, " [SUSPENDED]") {
				clean = false
			}
		}
		if clean && len(model) > 0 {
			sb2 := new(simbox.Simbox)
			for i, l := range lines {
				j := strings.Index(l, " - ")
				if j < 0 {
					return pbt.Failf("print", "step %d: listing line %q has no index prefix", step, l)
				}
				body := l[j+3:]
				susp := strings.HasSuffix(body, " [SUSPENDED]")
				body = strings.TrimSuffix(body, " [SUSPENDED]")
				if susp != model[i].Suspended {
					return pbt.Failf("print", "step %d: listing line %q, suspended marker=%v, model=%v", step, l, susp, model[i].Suspended)
				}
				if err := sb2.Add(body); err != nil {
					return pbt.Failf("print-unparsable", "step %d: listing line %q does not parse back: %v", step, l, err)
				}
				if mr, _ := ruleToModel(sb2.Rules[i]); !sameRule(mr, model[i].mrule) {
					return pbt.Failf("roundtrip", "step %d: listing line %q parses to %s, rule is %+v", step, l, rf(sb2.Rules[i]), model[i].mrule)
				}
			}
			labels["print-parsed-back"] = true
		}
		return nil
	}

	for step, op := range c.Ops {
		switch op.Kind {
		case "add":
			want, inModel := modelParse(op.Text)
			before := len(sb.Rules)
			err := sb.Add(op.Text)
			if err != nil {
				if len(sb.Rules) != before {
					return pbt.Outcome{Fail: pbt.Failf("list", "step %d: Add(%q) failed (%v) but changed the list", step, op.Text, err)}
				}
				if inModel && want.Doc {
					return pbt.Outcome{Fail: pbt.Failf("doc-rule-rejected", "step %d: %q is in the grammar of docs/simbox-rules.md but Add refuses it: %v", step, op.Text, err)}
				}
				if inModel {
					labels["rejected:undocumented-form"] = true
				} else {
					labels["rejected"] = true
				}
				continue
			}
			if len(sb.Rules) != before+1 {
				return pbt.Outcome{Fail: pbt.Failf("list", "step %d: Add(%q) succeeded and the list went from %d to %d rules", step, op.Text, before, len(sb.Rules))}
			}
			r := sb.Rules[before]
			if r.Suspended {
				return pbt.Outcome{Fail: pbt.Failf("list", "step %d: Add(%q) produced a suspended rule", step, op.Text)}
			}
			if f := checkRoundTrip(r); f != nil {
				f.Msg = fmt.Sprintf("step %d, Add(%q): %s", step, op.Text, f.Msg)
				return pbt.Outcome{Fail: f}
			}
			got, known := ruleToModel(r)
			if !known {
				return pbt.Outcome{Fail: pbt.Failf("add-fields", "step %d: Add(%q) produced %s with an unknown class/action code", step, op.Text, rf(r))}
			}
			if inModel && want.Doc && !sameRule(got, want) {
				return pbt.Outcome{Fail: pbt.Failf("add-fields", "step %d: Add(%q) produced %s, the documented meaning is %+v", step, op.Text, rf(r), want)}
			}
			if inModel && !sameRule(got, want) {
				labels["accepted:fields-differ-from-model(undocumented form)"] = true
			}
			if !inModel {
				labels["accepted:outside-model"] = true
			}
			model = append(model, modelEntry{mrule: got})
			forms[got.form()] = true
			labels["form:"+got.form()] = true
			switch {
			case got.Class == "absolute" || got.Class == "relative":
				switch {
				case got.Tick >= 1<<63:
					labels["tick:negative-wrapped"] = true
				case got.Tick > 1<<31:
					labels["tick:>2^31"] = true
				case got.Tick >= 1<<31-1:
					labels["tick:2^31-1..2^31"] = true
				case got.Tick == 0:
					labels["tick:0"] = true
				}
				if len(strings.Split(op.Text, ":")) == 4 {
					labels["extra:omitted"] = true
				}
			case got.Class != "config":
				if len(strings.Split(op.Text, ":")) == 3 {
					labels["extra:omitted"] = true
				}
			}
			if got.Class != "config" {
				switch {
				case reObjI.MatchString(got.Object), reObjO.MatchString(got.Object):
					labels["obj:iK/oK"] = true
				case reObjP.MatchString(got.Object):
					labels["obj:pXyK"] = true
				case reObjIF.MatchString(got.Object), reObjOF.MatchString(got.Object):
					labels["obj:flag"] = true
				case isDocObjectName(got.Object):
					labels["obj:doc-name"] = true
				case got.Object == "":
					labels["obj:empty"] = true
				default:
					labels["obj:other"] = true
				}
			}
		case "del", "suspend", "reactivate":
			var err error
			before := len(sb.Rules)
			switch op.Kind {
			case "del":
				err = sb.Del(op.Idx)
			case "suspend":
				err = sb.Suspend(op.Idx)
			case "reactivate":
				err = sb.Reactivate(op.Idx)
			}
			if op.Idx >= len(model) {
				if err == nil {
					return pbt.Outcome{Fail: pbt.Failf("index", "step %d: %s(%d) accepted with %d rules listed", step, op.Kind, op.Idx, before)}
				}
				labels[op.Kind+":refused"] = true
				break
			}
			if err != nil {
				return pbt.Outcome{Fail: pbt.Failf("index", "step %d: %s(%d) refused with %d rules listed: %v", step, op.Kind, op.Idx, before, err)}
			}
			switch op.Kind {
			case "del":
				if len(model) >= 2 {
					edited, savedAfterEdit = true, false
				}
				if op.Idx < len(model)-1 {
					labels["del:non-last"] = true
				}
				model = append(append([]modelEntry{}, model[:op.Idx]...), model[op.Idx+1:]...)
			case "suspend":
				if len(model) >= 2 {
					edited, savedAfterEdit = true, false
				}
				model[op.Idx].Suspended = true
			case "reactivate":
				if model[op.Idx].Suspended {
					labels["reactivate:was-suspended"] = true
				}
				model[op.Idx].Suspended = false
			}
			labels[op.Kind] = true
		case "saveload":
			// cmd/simbox/simbox.go:96 writes json.Marshal(sBox); cmd/simbox:61 and cmd/bondmachine:913 read it with json.Unmarshal
			b, err := json.Marshal(sb)
			if err != nil {
				return pbt.Outcome{Fail: pbt.Failf("save", "step %d: rule file cannot be written: %v", step, err)}
			}
			sb2 := new(simbox.Simbox)
			if err := json.Unmarshal(b, sb2); err != nil {
				return pbt.Outcome{Fail: pbt.Failf("load", "step %d: rule file %s cannot be read back: %v", step, b, err)}
			}
			sb = sb2
			labels["saveload"] = true
			if edited {
				savedAfterEdit = true
			}
			for _, e := range model {
				if e.Suspended {
					labels["saveload:with-suspended"] = true
				}
			}
		}
		if f := compare(step, op); f != nil {
			return pbt.Outcome{Fail: f}
		}
	}
	var ls []string
	for l := range labels {
		ls = append(ls, l)
	}
	return pbt.Outcome{NonTrivial: len(forms) >= 2 && savedAfterEdit, Labels: uniq(ls)}
}

// ---------------------------------------------------------------------------
// (c) native fuzz target. Oracle: Add never panics; an accepted string yields exactly one new rule that
// prints to a string Add parses back to the same rule; a valid-UTF-8 rule survives the JSON rule file.

func fuzzOne(s string) (fail string) {
	defer func() {
		if r := recover(); r != nil {
			fail = fmt.Sprintf("add-panic: Add(%q) panicked: %v", s, r)
		}
	}()
	sb := new(simbox.Simbox)
	if err := sb.Add(s); err != nil {
		if len(sb.Rules) != 0 {
			return fmt.Sprintf("list: Add(%q) failed but left %d rules", s, len(sb.Rules))
		}
		return ""
	}
	if len(sb.Rules) != 1 {
		return fmt.Sprintf("list: Add(%q) succeeded and left %d rules", s, len(sb.Rules))
	}
	if f := checkRoundTrip(sb.Rules[0]); f != nil {
		return f.Sig + ": " + f.Msg
	}
	if utf8.ValidString(s) {
		b, err := json.Marshal(sb)
		if err != nil {
			return "save: " + err.Error()
		}
		sb2 := new(simbox.Simbox)
		if err := json.Unmarshal(b, sb2); err != nil {
			return "load: " + err.Error()
		}
		if len(sb2.Rules) != 1 {
			return fmt.Sprintf("load: rule %s came back from the rule file as %d rules", rf(sb.Rules[0]), len(sb2.Rules))
		}
		if sb2.Rules[0] != sb.Rules[0] {
			return fmt.Sprintf("load: rule %s came back from the rule file as %s", rf(sb.Rules[0]), rf(sb2.Rules[0]))
		}
	}
	return ""
}

func FuzzSimboxAdd(f *testing.F) {
	for _, s := range []string{
		"absolute:100:set:r0:42", "absolute:200:get:r1:unsigned", "relative:10:set:r0:100", "relative:25:get:memory_0:signed",
		"onvalid:get:r0:unsigned", "onvalid:show:r2", "onrecv:get:io_input:signed", "onexit:show:r1:hex", "config:show_pc",
		"config:get_all:hex", "absolute:1:get:o0", "absolute:-1:set::", "relative:9223372036854775807:show:p0r0:bin",
		"", ":", "::::", "config:", "config::", "absolute:1:set:i0", "absolute::set:i0:1", "onexit:set:o0:1", "a:b:c:d:e:f",
		"absolute:2147483648:set:i0:0x<8>ff", "config:show_all_internal:unsigned [SUSPENDED]",
	} {
		f.Add(s)
	}
	f.Fuzz(func(t *testing.T, s string) {
		pbt.FuzzTrace(s)
		if msg := fuzzOne(s); msg != "" {
			t.Fatal(msg)
		}
	})
}
