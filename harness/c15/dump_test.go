package c15

import (
	"encoding/json"
	"fmt"
	"os"
	"testing"

	"verifharness/pbt"
)

func TestDump(t *testing.T) {
	p := os.Getenv("C15_DUMP")
	if p == "" {
		t.Skip()
	}
	b, _ := os.ReadFile(p)
	var rf pbt.ReplayFile
	json.Unmarshal(b, &rf)
	var c SimCase
	json.Unmarshal(rf.Case, &c)
	fmt.Println(describe(c))
	cli, err := runCLI(c)
	fmt.Printf("CLI exit=%d err=%v\nstdout=%q\nstderr=%.300q\ncsv=%q\n", cli.Exit, err, cli.Stdout, cli.Stderr, cli.CSV)
	bm, _ := buildBM(c.M)
	act, _ := activeRules(c.Rules)
	w := predict(c.M, bm, act, c.Ticks, c.StopOn, semantics{})
	for i, tk := range w.Ticks {
		fmt.Printf("pred tick %d shows=%v row=%v %v\n   pre  %s\n   post %s\n", i, tk.Shows, tk.HasRow, tk.Row, tk.Pre, tk.Post)
	}
}
