package c13

// C13, the shared-object wrapper (pkg/bondmachine/shr_stack.go, shr_queue.go): a stack or a queue shared by
// several processors reaches the hardware as a module st<k>/q<k> (rendered by bmstack through the wrapper) and
// as an instance of it in the top level, connected BY POSITION. Whatever the module does right is lost if the
// processors' request/acknowledge/data nets are connected to other agents' ports.
//
// Generated: 1..3 processors attached to one stack or queue, each pushing only, popping only or both, in any
// order; the real Write_verilog file set. Oracle (structural, on the parsed text): position by position, the
// net of the instance is the net of the same processor and the same role as the module port (p<i>…sender* on
// p<i>…send*, p<i>…receiver* on p<i>…recv*), the same field (Data/Write|Read/Ack), and the flags are on the
// flags.

import (
	"fmt"
	"regexp"
	"strings"

	"pgregory.net/rapid"
	"verifharness/gen"
	"verifharness/pbt"
	"verifharness/vlog"
)

type SOCase struct {
	Kind  string   // stack | queue
	Depth int
	Rsize int
	Roles []string // per processor: push | pop | both
}

func genSO(t *rapid.T) SOCase {
	c := SOCase{Kind: rapid.SampledFrom([]string{"stack", "queue"}).Draw(t, "kind"), Depth: rapid.IntRange(1, 4).Draw(t, "depth"),
		Rsize: rapid.SampledFrom([]int{8, 16}).Draw(t, "rsize")}
	n := rapid.IntRange(1, 3).Draw(t, "nprocs")
	for i := 0; i < n; i++ {
		c.Roles = append(c.Roles, rapid.SampledFrom([]string{"push", "pop", "both"}).Draw(t, "role"))
	}
	// at least one sender and one receiver (the property's quantifier: senders, receivers in 1..3)
	hasPush, hasPop := false, false
	for _, r := range c.Roles {
		hasPush = hasPush || r != "pop"
		hasPop = hasPop || r != "push"
	}
	if !hasPush || !hasPop {
		c.Roles[rapid.IntRange(0, n-1).Draw(t, "fixrole")] = "both"
	}
	return c
}

var (
	instNetRe = regexp.MustCompile(`^p([0-9]+)(st|q)[0-9]+(sender|receiver)(Data|Write|Read|Ack)$`)
	modPortRe = regexp.MustCompile(`^p([0-9]+)(stack|queue)_(send|recv)(Data|Write|Read|Ack)$`)
)

func propSO(c SOCase) pbt.Outcome {
	if len(c.Roles) == 0 || len(c.Roles) > 3 || (c.Kind != "stack" && c.Kind != "queue") {
		return pbt.Outcome{Excluded: "bad-case"}
	}
	hasPush, hasPop := false, false
	for _, r := range c.Roles {
		hasPush = hasPush || r != "pop"
		hasPop = hasPop || r != "push"
	}
	if !hasPush || !hasPop {
		return pbt.Outcome{Excluded: "no-sender-or-no-receiver"}
	}
	push, pop, short := "r2t", "t2r", "st"
	if c.Kind == "queue" {
		push, pop, short = "r2q", "q2r", "q"
	}
	var spec gen.BMSpec
	spec.Rsize = c.Rsize
	cons := fmt.Sprintf("%s:%d", c.Kind, c.Depth)
	for _, role := range c.Roles {
		var prog []string
		if role == "push" || role == "both" {
			prog = append(prog, "inc r0", fmt.Sprintf("%s r0 %s0", push, short))
		}
		if role == "pop" || role == "both" {
			prog = append(prog, fmt.Sprintf("%s r1 %s0", pop, short))
		}
		prog = append(prog, "j 0")
		spec.Procs = append(spec.Procs, gen.ProcSpec{R: 1, O: gen.NeededBits(len(prog)), Ops: gen.UsedOps(prog), Prog: prog, Shared: cons})
	}
	bm, err := gen.Build(spec)
	if err != nil {
		return pbt.Outcome{Fail: pbt.Failf("build", "cannot build: %v", err)}
	}
	bm.Add_shared_objects([]string{cons})
	if len(bm.Shared_objects) != 1 {
		return pbt.Outcome{Fail: pbt.Failf("build", "shared object %q not accepted", cons)}
	}
	for i := range c.Roles {
		bm.Connect_processor_shared_object([]string{fmt.Sprint(i), "0"})
	}
	files, err := gen.RenderBM(bm, nil)
	if err != nil {
		return pbt.Outcome{Fail: pbt.Failf("render", "%v", err)}
	}
	d, diags := vlog.ParseDesignOpts(files, vlog.ParseOpts{HonorTranslateOff: true})
	for _, dg := range diags {
		if dg.Class == vlog.ClassSyntax {
			return pbt.Outcome{Fail: pbt.Failf("hdl-syntax", "%v", dg)}
		}
	}
	modName := short + "0"
	mod, top := d.Module(modName), d.Module("bondmachine")
	if mod == nil || top == nil {
		return pbt.Outcome{Fail: pbt.Failf("so-module-missing", "module %s or the top level is missing; files %v", modName, fileNames(files))}
	}
	var inst *vlog.InstItem
	for _, it := range top.Items {
		if x, ok := it.(*vlog.InstItem); ok && x.ModName == modName {
			inst = x
		}
	}
	if inst == nil {
		return pbt.Outcome{Fail: pbt.Failf("so-instance-missing", "the top level does not instantiate %s", modName)}
	}
	labels := []string{"kind=" + c.Kind, fmt.Sprintf("procs=%d", len(c.Roles)), "roles=" + strings.Join(c.Roles, ",")}
	describe := func() string {
		var a, b []string
		for _, cn := range inst.Conns {
			a = append(a, exprName(cn.X))
		}
		b = append(b, mod.PortNames...)
		return fmt.Sprintf("instance nets: %v\nmodule ports:  %v", a, b)
	}
	if inst.Named {
		// connected by name: positions do not matter; names must exist (left to the lint of C18)
		return pbt.Outcome{NonTrivial: len(c.Roles) >= 2, Labels: append(labels, "named-connections")}
	}
	if len(inst.Conns) != len(mod.PortNames) {
		return pbt.Outcome{Labels: labels, Fail: pbt.Failf("so-port-count", "%s has %d ports, its instance %d connections\n%s", modName, len(mod.PortNames), len(inst.Conns), describe())}
	}
	for k, cn := range inst.Conns {
		net, port := exprName(cn.X), mod.PortNames[k]
		ni, pi := instNetRe.FindStringSubmatch(net), modPortRe.FindStringSubmatch(port)
		switch {
		case ni == nil && pi == nil:
			continue // clk, reset, the flags: checked by name below
		case ni == nil || pi == nil:
			return pbt.Outcome{Labels: labels, Fail: pbt.Failf("so-wiring-crossed", "position %d of the %s instance: net %q on port %q\n%s", k, modName, net, port, describe())}
		}
		role := map[string]string{"sender": "send", "receiver": "recv"}[ni[3]]
		if ni[1] != pi[1] || role != pi[3] || ni[4] != pi[4] {
			return pbt.Outcome{Labels: labels, Fail: pbt.Failf("so-wiring-crossed", "position %d of the %s instance: net %q (processor %s, %s %s) is connected to port %q (processor %s, %s %s)\n%s",
				k, modName, net, ni[1], ni[3], ni[4], port, pi[1], pi[3], pi[4], describe())}
		}
	}
	for k, cn := range inst.Conns {
		net, port := exprName(cn.X), mod.PortNames[k]
		for _, flag := range []string{"empty", "full"} {
			if port == flag && !strings.HasSuffix(net, flag) {
				return pbt.Outcome{Labels: labels, Fail: pbt.Failf("so-wiring-crossed", "position %d: net %q on the flag port %q\n%s", k, net, port, describe())}
			}
		}
	}
	mixed := false
	for i := 1; i < len(c.Roles); i++ {
		if c.Roles[i] != c.Roles[0] || c.Roles[i] == "both" {
			mixed = true
		}
	}
	return pbt.Outcome{NonTrivial: len(c.Roles) >= 2 && mixed, Labels: labels}
}

func exprName(e vlog.Expr) string {
	switch x := e.(type) {
	case *vlog.Ident:
		return x.Name
	case nil:
		return ""
	}
	return fmt.Sprintf("%T", e)
}

func fileNames(m map[string]string) []string {
	var r []string
	for n := range m {
		r = append(r, n)
	}
	return r
}

const ruleSO = "one stack or queue (depth 1..4) shared by 1..3 processors, each pushing only, popping only or both, in any order, built through the public editing API and rendered by the real Write_verilog; structural oracle on the parsed file set: position by position the instance of st0/q0 in the top level connects the net of processor i's sender/receiver Data/Write|Read/Ack to the module port of processor i's send/recv Data/Write|Read/Ack, and the flags to the flags; non-trivial = >=2 processors whose roles differ or include a processor that does both"

func init() {
	Props = append(Props, pbt.Def("so_wiring", ruleSO, genSO, propSO))
}
