// C13 — generated stacks and queues never lose, duplicate or reorder an element.
// The module rendered by BmStack.WriteHDL() is executed by /verif's Verilog interpreter under
// handshake-abiding agents whose per-cycle choices are generated (rapid) or enumerated exhaustively
// (bounded-exhaustive generator with memoisation) and compared with an abstract sequence.
package c13

import (
	"fmt"
	"os"
	"sort"
	"strconv"
	"strings"
	"sync"
	"testing"

	"github.com/BondMachineHQ/BondMachine/pkg/bmstack"
	"github.com/BondMachineHQ/BondMachine/pkg/bondmachine"
	"github.com/BondMachineHQ/BondMachine/pkg/procbuilder"
	"pgregory.net/rapid"
	"verifharness/pbt"
	"verifharness/vlog"
)

type Config struct {
	MemType   string // LIFO | FIFO
	Depth     int
	DataSize  int
	Senders   int
	Receivers int
	// ViaSO: render the module through the shared-object wrapper (bondmachine Stack_instance / Queue_instance
	// .Write_verilog on a machine whose processors carry r2t/t2r resp. r2q/q2r) instead of BmStack directly.
	// DataSize is then the machine's register size and the port prefixes are p<n>stack_send / p<n>queue_recv ….
	ViaSO bool `json:",omitempty"`
}

// Choice of one agent in one cycle: Act is interpreted by the agent's state
// (idle: 0 = stay idle, 1 = raise the request; acknowledged: 0 = keep the request up one more cycle, 1 = drop it).
type Choice struct {
	Act  uint8
	Data uint64
}

type Case struct {
	Cfg    Config
	Cycles [][]Choice // [cycle][agent]; agents = senders then receivers
}

func (c Config) String() string {
	via := ""
	if c.ViaSO {
		via = "/via-so"
	}
	return fmt.Sprintf("%s/d%d/w%d/s%d/r%d%s", c.MemType, c.Depth, c.DataSize, c.Senders, c.Receivers, via)
}

// portPrefix gives the port-name prefix of agent i (senders first, then receivers).
func (c Config) portPrefix(i int) (string, bool) {
	if !c.ViaSO {
		if i < c.Senders {
			return fmt.Sprintf("s%d", i), true
		}
		return fmt.Sprintf("r%d", i-c.Senders), false
	}
	kind := "stack"
	if c.MemType == "FIFO" {
		kind = "queue"
	}
	// processors 0..Senders-1 write, processors Senders..Senders+Receivers-1 read
	if i < c.Senders {
		return fmt.Sprintf("p%d%s_send", i, kind), true
	}
	return fmt.Sprintf("p%d%s_recv", i, kind), false
}

func renderViaSO(cfg Config) (string, error) {
	bm := new(bondmachine.Bondmachine)
	bm.Rsize = uint8(cfg.DataSize)
	wr, rd, so := "r2t", "t2r", fmt.Sprintf("stack:%d", cfg.Depth)
	if cfg.MemType == "FIFO" {
		wr, rd, so = "r2q", "q2r", fmt.Sprintf("queue:%d", cfg.Depth)
	}
	mk := func(op string) *procbuilder.Machine {
		m := new(procbuilder.Machine)
		m.Arch.Rsize = uint8(cfg.DataSize)
		m.Arch.Modes = []string{"ha"}
		m.Arch.R, m.Arch.O = 1, 2
		var ops []procbuilder.Opcode
		for _, n := range []string{"nop", op} {
			for _, o := range procbuilder.Allopcodes {
				if o.Op_get_name() == n {
					ops = append(ops, o)
				}
			}
		}
		sort.Sort(procbuilder.ByName(ops))
		m.Arch.Op = ops
		return m
	}
	bm.Domains = []*procbuilder.Machine{mk(wr), mk(rd)}
	bm.Init()
	for i := 0; i < cfg.Senders; i++ {
		bm.Add_processor(0)
	}
	for i := 0; i < cfg.Receivers; i++ {
		bm.Add_processor(1)
	}
	bm.Add_shared_objects([]string{so})
	if len(bm.Shared_objects) != 1 {
		return "", fmt.Errorf("shared object %q not instantiated", so)
	}
	for p := 0; p < cfg.Senders+cfg.Receivers; p++ {
		bm.Connect_processor_shared_object([]string{strconv.Itoa(p), "0"})
	}
	return bm.Shared_objects[0].Write_verilog(bm, 0, "stk", "iverilog"), nil
}

func render(cfg Config) (string, error) {
	if cfg.ViaSO {
		return renderViaSO(cfg)
	}
	s := bmstack.CreateBasicStack()
	s.ModuleName = "stk"
	s.DataSize = cfg.DataSize
	s.Depth = cfg.Depth
	s.MemType = cfg.MemType
	s.Senders, s.Receivers = nil, nil
	for i := 0; i < cfg.Senders; i++ {
		s.Senders = append(s.Senders, fmt.Sprintf("s%d", i))
	}
	for i := 0; i < cfg.Receivers; i++ {
		s.Receivers = append(s.Receivers, fmt.Sprintf("r%d", i))
	}
	return s.WriteHDL()
}

var (
	simMu    sync.Mutex
	simCache = map[Config]*vlog.Sim{}
)

// freshSim returns a simulator of the module in its post-reset state.
func freshSim(cfg Config) (*vlog.Sim, error) {
	simMu.Lock()
	defer simMu.Unlock()
	if s, ok := simCache[cfg]; ok {
		return s.Clone(), nil
	}
	src, err := render(cfg)
	if err != nil {
		return nil, fmt.Errorf("WriteHDL: %v", err)
	}
	d, diags := vlog.ParseDesign(map[string]string{"stk.v": src})
	for _, dg := range diags {
		if dg.Class == vlog.ClassSyntax {
			return nil, fmt.Errorf("generated module does not parse: %v", dg)
		}
	}
	sim, err := vlog.Elaborate(d, "stk", nil)
	if err != nil {
		return nil, fmt.Errorf("elaborate: %v", err)
	}
	sim.Set("reset", 1)
	if err := sim.Tick("clk"); err != nil {
		return nil, err
	}
	if err := sim.Tick("clk"); err != nil {
		return nil, err
	}
	sim.Set("reset", 0)
	if err := sim.Settle(); err != nil {
		return nil, err
	}
	simCache[cfg] = sim
	return sim.Clone(), nil
}

// agent protocol states
const (
	aIdle  = iota // request low, ack low
	aReq          // request high, waiting for ack
	aAcked        // request high, ack seen high (may dawdle)
	aDrop         // request low, waiting for ack to fall
)

type agent struct {
	state   int
	data    uint64 // data held by a sender while requesting
	waited  int    // enabled cycles spent requesting without an ack
	ackPrev bool
}

// world = circuit + agents + abstract sequence
type world struct {
	cfg    Config
	sim    *vlog.Sim
	ag     []agent
	q      []uint64
	labels map[string]bool
	wrapW  int // number of writes accepted (pointer wrap detection)
	full   bool
	empty  bool
}

func newWorld(cfg Config) (*world, error) {
	sim, err := freshSim(cfg)
	if err != nil {
		return nil, err
	}
	w := &world{cfg: cfg, sim: sim, ag: make([]agent, cfg.Senders+cfg.Receivers), labels: map[string]bool{}}
	return w, nil
}

func (w *world) clone() *world {
	n := *w
	n.sim = w.sim.Clone()
	n.ag = append([]agent(nil), w.ag...)
	n.q = append([]uint64(nil), w.q...)
	n.labels = w.labels // shared label sink
	return &n
}

func (w *world) key() string {
	var b strings.Builder
	b.WriteString(w.sim.StateKey())
	for _, a := range w.ag {
		fmt.Fprintf(&b, "|%d,%d,%d", a.state, a.data, a.waited)
	}
	fmt.Fprintf(&b, "|%v", w.q)
	return b.String()
}

func (w *world) name(i int) (string, bool) { return w.cfg.portPrefix(i) }

// step applies one cycle of agent choices and checks the refinement relation.
func (w *world) step(ch []Choice) *pbt.Failure {
	cfg := w.cfg
	mask := uint64(1)<<uint(cfg.DataSize) - 1
	// 1. agents drive their requests for this cycle
	for i := range w.ag {
		a := &w.ag[i]
		n, sender := w.name(i)
		c := Choice{}
		if i < len(ch) {
			c = ch[i]
		}
		switch a.state {
		case aIdle:
			if c.Act&1 == 1 {
				a.state = aReq
				a.waited = 0
				if sender {
					a.data = c.Data & mask
				}
			}
		case aAcked:
			if c.Act&1 == 1 {
				a.state = aDrop
			}
		}
		req := uint64(0)
		if a.state == aReq || a.state == aAcked {
			req = 1
		}
		if sender {
			w.sim.Set(n+"Write", req)
			w.sim.Set(n+"Data", a.data)
		} else {
			w.sim.Set(n+"Read", req)
		}
	}
	if err := w.sim.Settle(); err != nil {
		return pbt.Failf("interp", "settle: %v", err)
	}
	// path enabledness as seen by the circuit's own flags before the edge (they are checked against the model below)
	preLen := len(w.q)
	readneed := false
	for i := cfg.Senders; i < len(w.ag); i++ {
		if w.ag[i].state == aReq || w.ag[i].state == aAcked {
			readneed = true
		}
	}
	readEnabled := preLen > 0
	writeEnabled := preLen < cfg.Depth && !(readneed && preLen > 0)
	// 2. clock edge
	if err := w.sim.Tick("clk"); err != nil {
		return pbt.Failf("interp", "tick: %v", err)
	}
	// 3. observe acks; apply transfers to the abstract sequence
	var rises []int
	for i := range w.ag {
		a := &w.ag[i]
		n, _ := w.name(i)
		ack := w.sim.Get(n+"Ack") == 1
		if ack && !a.ackPrev {
			rises = append(rises, i)
		}
		// handshake discipline of the module
		switch a.state {
		case aIdle:
			if ack {
				return pbt.Failf("ack-without-request", "%s: %sAck is high while the agent is idle (no request since the last handshake ended)", cfg, n)
			}
		case aAcked:
			if !ack {
				return pbt.Failf("ack-dropped-early", "%s: %sAck fell while the request is still up", cfg, n)
			}
		}
		a.ackPrev = ack
	}
	if len(rises) > 1 {
		w.labels["simultaneous-acks"] = true
	}
	// reads before writes when several acks rise together (the module gives reads priority)
	sort.SliceStable(rises, func(x, y int) bool {
		return (rises[x] >= cfg.Senders) && !(rises[y] >= cfg.Senders)
	})
	for _, i := range rises {
		a := &w.ag[i]
		n, sender := w.name(i)
		if a.state != aReq {
			return pbt.Failf("ack-without-request", "%s: %sAck rose while the agent was not requesting (state %d)", cfg, n, a.state)
		}
		if sender {
			if len(w.q) >= cfg.Depth {
				return pbt.Failf("accepted-when-full", "%s: write of %d by %s acknowledged while %d elements are stored (depth %d)", cfg, a.data, n, len(w.q), cfg.Depth)
			}
			w.q = append(w.q, a.data)
			w.wrapW++
		} else {
			if len(w.q) == 0 {
				return pbt.Failf("returned-when-empty", "%s: read by %s acknowledged while nothing is stored (data %d)", cfg, n, w.sim.Get(n+"Data"))
			}
			var want uint64
			if cfg.MemType == "LIFO" {
				want = w.q[len(w.q)-1]
				w.q = w.q[:len(w.q)-1]
			} else {
				want = w.q[0]
				w.q = w.q[1:]
			}
			if got := w.sim.Get(n + "Data"); got != want {
				return pbt.Failf("wrong-element", "%s: read by %s returned %d, the %s discipline prescribes %d (stored before the read: %v)", cfg, n, got, cfg.MemType, want, append(append([]uint64(nil), w.q...), want))
			}
		}
		a.state = aAcked
	}
	// 4. agents that dropped wait for the ack to fall
	for i := range w.ag {
		a := &w.ag[i]
		if a.state == aDrop && !a.ackPrev {
			a.state = aIdle
		}
	}
	// 5. flags reflect the number of stored elements
	empty := w.sim.Get("empty") == 1
	full := w.sim.Get("full") == 1
	if empty != (len(w.q) == 0) {
		return pbt.Failf("empty-flag", "%s: empty=%v with %d stored elements %v", cfg, empty, len(w.q), w.q)
	}
	if full != (len(w.q) == cfg.Depth) {
		return pbt.Failf("full-flag", "%s: full=%v with %d stored elements (depth %d)", cfg, full, len(w.q), cfg.Depth)
	}
	if full {
		w.full = true
	}
	if empty && w.wrapW > 0 {
		w.empty = true
	}
	// 6. bounded wait: a continuously requesting agent is acknowledged within 2*agents+2 cycles in which its path was enabled
	bound := 2*len(w.ag) + 2
	for i := range w.ag {
		a := &w.ag[i]
		if a.state != aReq {
			continue
		}
		_, sender := w.name(i)
		if (sender && writeEnabled) || (!sender && readEnabled) {
			a.waited++
		}
		if a.waited > bound {
			n, _ := w.name(i)
			return pbt.Failf("starvation", "%s: %s has been requesting for %d cycles in which its path was enabled without an acknowledge (bound %d)", cfg, n, a.waited, bound)
		}
	}
	return nil
}

func run(c Case) pbt.Outcome {
	if c.Cfg.Depth < 1 || c.Cfg.DataSize < 1 || c.Cfg.DataSize > 64 || c.Cfg.Senders < 1 || c.Cfg.Receivers < 1 {
		return pbt.Outcome{Excluded: "invalid-config"}
	}
	w, err := newWorld(c.Cfg)
	if err != nil {
		return pbt.Outcome{Fail: pbt.Failf("setup", "%s: %v", c.Cfg, err)}
	}
	for t, ch := range c.Cycles {
		if f := w.step(ch); f != nil {
			f.Msg = fmt.Sprintf("cycle %d: %s", t, f.Msg)
			return pbt.Outcome{Fail: f, Labels: []string{c.Cfg.MemType}}
		}
	}
	labels := []string{c.Cfg.MemType, fmt.Sprintf("depth=%d", c.Cfg.Depth), fmt.Sprintf("agents=%d+%d", c.Cfg.Senders, c.Cfg.Receivers)}
	if c.Cfg.ViaSO {
		labels = append(labels, "via-shared-object-wrapper")
	}
	wrapped := w.wrapW > c.Cfg.Depth
	if wrapped {
		labels = append(labels, "pointer-wrapped")
	}
	if w.full {
		labels = append(labels, "reached-full")
	}
	if w.labels["simultaneous-acks"] {
		labels = append(labels, "simultaneous-acks")
	}
	return pbt.Outcome{NonTrivial: wrapped || (w.full && w.empty), Labels: labels}
}

func genCase(maxDepth int) func(t *rapid.T) Case {
	return func(t *rapid.T) Case {
		var c Case
		c.Cfg.MemType = rapid.SampledFrom([]string{"LIFO", "FIFO"}).Draw(t, "mem")
		c.Cfg.Depth = rapid.IntRange(1, maxDepth).Draw(t, "depth")
		c.Cfg.DataSize = rapid.IntRange(1, 8).Draw(t, "dsize")
		c.Cfg.Senders = rapid.IntRange(1, 3).Draw(t, "senders")
		c.Cfg.Receivers = rapid.IntRange(1, 3).Draw(t, "receivers")
		if rapid.IntRange(0, 3).Draw(t, "viaso") == 0 {
			c.Cfg.ViaSO = true
			c.Cfg.DataSize = rapid.SampledFrom([]int{8, 16, 32}).Draw(t, "rsize")
		}
		n := rapid.IntRange(10, 200).Draw(t, "cycles")
		// bias knobs so that full and empty are both reached: how eager writers and readers are
		pw := rapid.IntRange(1, 9).Draw(t, "pwrite")
		pr := rapid.IntRange(1, 9).Draw(t, "pread")
		agents := c.Cfg.Senders + c.Cfg.Receivers
		for i := 0; i < n; i++ {
			row := make([]Choice, agents)
			for a := 0; a < agents; a++ {
				p := pw
				if a >= c.Cfg.Senders {
					p = pr
				}
				if rapid.IntRange(0, 9).Draw(t, "act") < p {
					row[a].Act = 1
				}
				if a < c.Cfg.Senders {
					row[a].Data = uint64(rapid.Uint32().Draw(t, "data"))
				}
			}
			c.Cycles = append(c.Cycles, row)
		}
		return c
	}
}

const ruleRandom = "BmStack{LIFO|FIFO, Depth 1..4 (1..9 in entry deep), DataSize 1..8, senders 1..3, receivers 1..3} rendered by WriteHDL and executed by the Verilog interpreter for 10..200 cycles; every agent follows idle -> request(+data) -> hold until ack -> (dawdle) -> drop -> wait ack low, with its per-cycle choice generated; reference = abstract sequence updated on rising acks; invariants every cycle: discipline of returned elements, no accept when full / return when empty, empty/full flags = stored count, ack only while requested and held until the request drops, ack within 2*agents+2 enabled cycles; non-trivial = more writes accepted than Depth (pointer wrap) or both full and empty-after-use reached"

var (
	entryRandom = pbt.Def("agents", ruleRandom, genCase(4), run)
	entryDeep   = pbt.Def("agents_deep", ruleRandom, genCase(9), run)
)

var Props = []*pbt.Entry{entryRandom, entryDeep}

func TestProps(t *testing.T)  { pbt.RunAll(t, "C13", Props) }
func TestReplay(t *testing.T) { pbt.ReplayAll(t, "C13", append(Props, entryExh)) }

// ---------------------------------------------------------------------------
// bounded-exhaustive generator: every sequence of per-cycle agent choices, with memoisation of
// (circuit registers, agent states, abstract sequence).

var entryExh = pbt.Def("exhaustive",
	"bounded-exhaustive generation: for the listed small configurations every sequence of per-cycle agent choices is generated breadth-first (idle sender: stay / raise with each data value; idle receiver: stay / raise; acknowledged agent: hold / drop), prefixes reaching an already visited (circuit state, agent states, abstract sequence) triple are pruned; the same per-cycle invariants as entry agents are checked on every transition; non-trivial = every visited state (each is reached by a distinct minimal history)",
	func(t *rapid.T) Case { return Case{} }, run)

type exhResult struct {
	States, Transitions int
	Closed              bool
	Depth               int
}

func exhaust(cfg Config, maxStates int) (exhResult, *pbt.Failure, Case) {
	var res exhResult
	w0, err := newWorld(cfg)
	if err != nil {
		return res, pbt.Failf("setup", "%v", err), Case{Cfg: cfg}
	}
	type node struct {
		w    *world
		hist [][]Choice
	}
	seen := map[string]bool{w0.key(): true}
	frontier := []node{{w: w0}}
	res.States = 1
	vals := 1 << uint(cfg.DataSize)
	for len(frontier) > 0 {
		var next []node
		for _, nd := range frontier {
			// enumerate the choice vectors that matter in this state
			opts := make([][]Choice, len(nd.w.ag))
			for i, a := range nd.w.ag {
				switch a.state {
				case aIdle:
					opts[i] = []Choice{{Act: 0}}
					if i < cfg.Senders {
						for v := 0; v < vals; v++ {
							opts[i] = append(opts[i], Choice{Act: 1, Data: uint64(v)})
						}
					} else {
						opts[i] = append(opts[i], Choice{Act: 1})
					}
				case aAcked:
					opts[i] = []Choice{{Act: 0}, {Act: 1}}
				default:
					opts[i] = []Choice{{Act: 0}}
				}
			}
			idx := make([]int, len(opts))
			for {
				ch := make([]Choice, len(opts))
				for i := range opts {
					ch[i] = opts[i][idx[i]]
				}
				nw := nd.w.clone()
				res.Transitions++
				if f := nw.step(ch); f != nil {
					h := append(append([][]Choice(nil), nd.hist...), ch)
					return res, f, Case{Cfg: cfg, Cycles: h}
				}
				k := nw.key()
				if !seen[k] {
					seen[k] = true
					res.States++
					h := append(append([][]Choice(nil), nd.hist...), ch)
					next = append(next, node{w: nw, hist: h})
					if res.States >= maxStates {
						res.Depth++
						return res, nil, Case{}
					}
				}
				// next index vector
				j := 0
				for ; j < len(idx); j++ {
					idx[j]++
					if idx[j] < len(opts[j]) {
						break
					}
					idx[j] = 0
				}
				if j == len(idx) {
					break
				}
			}
		}
		frontier = next
		res.Depth++
	}
	res.Closed = true
	return res, nil, Case{}
}

func TestExhaustive(t *testing.T) {
	t.Cleanup(pbt.Flush)
	tier := os.Getenv("VERIF_TIER")
	var cfgs []Config
	for _, mem := range []string{"LIFO", "FIFO"} {
		for depth := 1; depth <= 2; depth++ {
			for s := 1; s <= 2; s++ {
				for r := 1; r <= 2; r++ {
					cfgs = append(cfgs, Config{MemType: mem, Depth: depth, DataSize: 1, Senders: s, Receivers: r})
				}
			}
		}
	}
	maxStates := 60000
	if tier == "thorough" {
		maxStates = 1500000
		for _, mem := range []string{"LIFO", "FIFO"} {
			cfgs = append(cfgs, Config{MemType: mem, Depth: 3, DataSize: 1, Senders: 2, Receivers: 2}, Config{MemType: mem, Depth: 3, DataSize: 2, Senders: 1, Receivers: 1}, Config{MemType: mem, Depth: 2, DataSize: 2, Senders: 2, Receivers: 1}, Config{MemType: mem, Depth: 4, DataSize: 1, Senders: 1, Receivers: 2}, Config{MemType: mem, Depth: 3, DataSize: 1, Senders: 3, Receivers: 3})
		}
	}
	var summary []string
	for _, cfg := range cfgs {
		res, f, c := exhaust(cfg, maxStates)
		line := fmt.Sprintf("%s: states=%d transitions=%d depth=%d closed=%v", cfg, res.States, res.Transitions, res.Depth, res.Closed)
		summary = append(summary, line)
		t.Log(line)
		out := pbt.Outcome{NonTrivial: true, Labels: []string{"exh:" + cfg.String()}}
		if f != nil {
			out.Fail = f
			path := pbt.WriteFail("exhaustive", c, f)
			pbt.Observe(entryExh, c, out)
			t.Fatalf("FAIL exhaustive %s: %s replay=%s", cfg, f.Msg, path)
		}
		pbt.Observe(entryExh, map[string]any{"cfg": cfg, "states": res.States, "transitions": res.Transitions, "bfs_depth": res.Depth, "frontier_emptied": res.Closed}, out)
		pbt.Extra("exhaustive", "states", float64(res.States))
		_ = line
	}
	pbt.Extra("exhaustive", "slices", summary)
}
