package c04

// C04, generated-hardware world: the same generated producer/consumer machines, rendered by
// Bondmachine.Write_verilog and executed by the Verilog interpreter; the same history invariant,
// observed at the processors (register captured at each completed i2rw, producer pc leaving r2owa).

import (
	"fmt"
	"sort"
	"strings"

	"pgregory.net/rapid"
	"verifharness/gen"
	"verifharness/pbt"
)

func propHDL(c Case) pbt.Outcome {
	spec := c.spec()
	bm, err := gen.Build(spec)
	if err != nil {
		return pbt.Outcome{Fail: pbt.Failf("build", "cannot build: %v", err)}
	}
	files, err := gen.RenderBM(bm, nil)
	if err != nil {
		return pbt.Outcome{Fail: pbt.Failf("render", "%v", err)}
	}
	env := gen.Env{}
	for _, cs := range c.Consumers {
		if cs.Forward {
			env.OutStall = append(env.OutStall, cs.OutStall)
		}
	}
	r, err := gen.NewHDLRunner(files, spec, env)
	if err != nil {
		return pbt.Outcome{Fail: pbt.Failf("hdl-elaborate", "%v", err)}
	}
	sig := func(p int, n string) string { return fmt.Sprintf("a%d_inst.p%d_instance.%s", p, p, n) }
	prodW := map[int]int{}
	for i, l := range spec.Procs[0].Prog {
		if strings.HasPrefix(l, "r2owa r0") {
			prodW[i] = 0
		} else if strings.HasPrefix(l, "r2owa r1") {
			prodW[i] = 1
		}
	}
	consR := make([]int, len(c.Consumers))
	for i := range c.Consumers {
		for j, l := range spec.Procs[i+1].Prog {
			if strings.HasPrefix(l, "i2rw") {
				consR[i] = j
			}
		}
	}
	var sent []uint64
	recv := make([][]uint64, len(c.Consumers))
	d4, d12 := false, false
	sameOffer := make([]bool, len(c.Consumers))
	var fail *pbt.Failure
	cycles := 3 * c.Ticks
	for cyc := 0; cyc < cycles && fail == nil; cyc++ {
		prePcP := int(r.Sim.Get(sig(0, "_pc")))
		if _, atW := prodW[prePcP]; atW && r.Sim.Get(sig(0, "waitsm")) == 0 && r.Sim.Get(sig(0, "o0_val")) == 1 {
			d12 = true // r2owa starts while valid of the previous write is still up
		}
		prePcC := make([]int, len(c.Consumers))
		for i := range c.Consumers {
			prePcC[i] = int(r.Sim.Get(sig(i+1, "_pc")))
			if r.Sim.Get(sig(i+1, "i0_valid")) == 0 {
				sameOffer[i] = false
			}
			if prePcC[i] == consR[i] && r.Sim.Get(sig(i+1, "i0_recv")) == 1 && r.Sim.Get(sig(i+1, "i0_valid")) == 1 && sameOffer[i] {
				d4 = true // i2rw captures the same offer again (own received flag still up, valid never fell)
			}
		}
		if err := r.Step(); err != nil {
			return pbt.Outcome{Fail: pbt.Failf("interp", "%v", err)}
		}
		for i := range c.Consumers {
			if prePcC[i] == consR[i] && int(r.Sim.Get(sig(i+1, "_pc"))) == consR[i]+1 {
				recv[i] = append(recv[i], r.Sim.Get(sig(i+1, "_r0")))
				sameOffer[i] = true
			}
		}
		if reg, atW := prodW[prePcP]; atW && int(r.Sim.Get(sig(0, "_pc"))) == prePcP+1 {
			sent = append(sent, r.Sim.Get(sig(0, fmt.Sprintf("_r%d", reg))))
		}
		offered := sent
		if reg, atW := prodW[int(r.Sim.Get(sig(0, "_pc")))]; atW {
			offered = append(append([]uint64(nil), sent...), r.Sim.Get(sig(0, fmt.Sprintf("_r%d", reg))))
		}
		for i := range c.Consumers {
			if len(recv[i]) < len(sent) {
				fail = pbt.Failf("lost", "cycle %d: producer moved past its %d-th write while consumer %d has captured only %d values: sent=%v received=%v", cyc, len(sent), i, len(recv[i]), sent, recv[i])
				break
			}
			if len(recv[i]) > len(offered) {
				fail = pbt.Failf("dup", "cycle %d: consumer %d captured %d values, only %d were offered: offered=%v received=%v", cyc, i, len(recv[i]), len(offered), offered, recv[i])
				break
			}
			for k := range recv[i] {
				if recv[i][k] != offered[k] {
					fail = pbt.Failf("dup", "cycle %d: consumer %d received %v, produced sequence is %v (position %d differs)", cyc, i, recv[i], offered, k)
					break
				}
			}
			if fail != nil {
				break
			}
		}
	}
	labels := []string{fmt.Sprintf("k=%d", len(c.Consumers)), fmt.Sprintf("rsize=%d", c.Rsize)}
	if c.Safe {
		labels = append(labels, "safe-region")
	}
	if c.Burst {
		labels = append(labels, "burst")
	}
	if d4 {
		labels = append(labels, "D4h-pre-fired")
	}
	if d12 {
		labels = append(labels, "D12-pre-fired")
	}
	minRecv := len(sent)
	for i := range recv {
		if len(recv[i]) < minRecv {
			minRecv = len(recv[i])
		}
	}
	// liveness is not part of the invariant, but a machine that stops transferring is worth a label
	if minRecv == 0 {
		labels = append(labels, "no-transfer")
	}
	sort.Strings(labels)
	out := pbt.Outcome{NonTrivial: minRecv >= 5, Labels: labels}
	if fail != nil {
		// only a duplicate is explained by the recorded hardware finding D4h; D12 (r2owa started while valid
		// is still up) makes the hardware wait, it never loses or duplicates a value
		if d4 && fail.Sig == "dup" {
			fail.Sig = "D4h:i2rw-rereads-while-own-recv-high"
			if !c.Strict {
				out.Excluded = "D4h"
				out.Labels = append(out.Labels, "excluded-breach:"+fail.Sig)
				return out
			}
		}
		out.Fail = fail
	}
	return out
}

const ruleHDL = "generated-hardware world: the same producer/consumer machines as entry sim_history (without per-opcode delays, which exist only in the simulator), rendered by Bondmachine.Write_verilog and executed by the Verilog interpreter for 3x the tick budget; the same invariant observed at the processors' _pc/_rN; non-trivial = every consumer captured >=5 values"

func genCaseHDL(t *rapid.T) Case {
	c := genCase(t)
	c.Delays = nil
	for i := range c.Consumers {
		c.Consumers[i].Sicv3 = false // sicv3 consumers are judged in the simulator world only
		c.Consumers[i].Finite = 0    // a program that ends halts the simulator and wraps in hardware
	}
	return c
}

var hdlEntry = pbt.Def("hdl_history", ruleHDL, genCaseHDL, propHDL)
