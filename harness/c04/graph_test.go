package c04

// C04, arbitrary bond graphs: dataflow-shaped machines of gen.HandshakeMachine (1..4 processors, up to
// five inputs and five outputs per processor so that the port field of i2rw/r2owa is 1, 2 or 3 bits
// wide, fan-out, external and internal sources mixed). Every bond of the graph is judged with the
// history invariant of entry sim_history:
//
//	processor output -> processor input : captured(q,k) is a prefix of offered(p,o) and the producer
//	                                      never leaves its r2owa before every consumer has captured
//	external input   -> processor input : captured(q,k) is a prefix of the environment's stream, at most
//	                                      one ahead of what the environment saw acknowledged
//	processor output -> external output : accepted(o) is a prefix of offered(p,o), never behind sent
//
// observed at the processors (pc leaving an i2rw / r2owa, the register named by the instruction) in the
// simulator and in the generated hardware. The values are data dependent (no counters), so a
// duplicate is recognised by count and position, not by value.

import (
	"fmt"
	"sort"
	"strings"

	"pgregory.net/rapid"
	"verifharness/gen"
	"verifharness/pbt"
)

type GraphCase struct {
	World  string // "sim" | "hdl"
	Spec   gen.BMSpec
	Env    gen.Env
	Ticks  int
	Strict bool
}

func genGraph(world string) func(t *rapid.T) GraphCase {
	return func(t *rapid.T) GraphCase {
		c := GraphCase{World: world}
		ports := []int{1, 2, 3, 5}
		o := gen.HSOptions{MaxProcs: 4, MaxPad: 3,
			MaxIn:  rapid.SampledFrom(ports).Draw(t, "maxin"),
			MaxOut: rapid.SampledFrom(ports).Draw(t, "maxout"),
		}
		if rapid.Bool().Draw(t, "safe") {
			// four non-IO instructions after every IO instruction: the previous handshake on a port has
			// returned to idle before the port is used again (outside the recorded findings by construction)
			o.MinPad, o.MaxPad = 4, 5
		}
		o.NoFanout = rapid.IntRange(0, 2).Draw(t, "nofanout") == 0
		c.Spec = gen.HandshakeMachine(t, o)
		for i := 0; i < c.Spec.Inputs; i++ {
			n := rapid.IntRange(0, 20).Draw(t, "nin")
			var st []uint64
			for k := 0; k < n; k++ {
				st = append(st, rapid.Uint64().Draw(t, "v")>>uint(64-c.Spec.Rsize))
			}
			c.Env.In = append(c.Env.In, st)
			c.Env.InGap = append(c.Env.InGap, rapid.IntRange(0, 4).Draw(t, "gap"))
		}
		for i := 0; i < c.Spec.Outputs; i++ {
			c.Env.OutStall = append(c.Env.OutStall, rapid.IntRange(0, 4).Draw(t, "stall"))
		}
		c.Ticks = rapid.IntRange(60, 300).Draw(t, "ticks")
		return c
	}
}

// gworld is what the invariant needs to see of a running machine.
type gworld interface {
	Step() error
	Pc(p int) int
	Reg(p, r int) uint64
	Idle(p int) bool // the instruction at Pc starts in this step (no simulated delay pending)
	InValid(p, k int) bool
	InRecv(p, k int) bool
	OutValid(p, k int) bool
	OutRecv(p, k int) bool
	Waitsm0(p int) bool // hardware: the r2owa state machine is in its first state
	Accepted() [][]uint64
	EnvSent() []int
}

type simWorld struct{ r *gen.Runner }

func (w simWorld) Step() error            { return w.r.Step() }
func (w simWorld) Pc(p int) int           { return int(w.r.VM.Processors[p].Pc) }
func (w simWorld) Reg(p, r int) uint64    { return gen.U64(w.r.VM.Processors[p].Registers[r]) }
func (w simWorld) Idle(p int) bool        { return w.r.VM.Processors[p].DelayCounter == 0 }
func (w simWorld) InValid(p, k int) bool  { return w.r.VM.Processors[p].InputsValid[k] }
func (w simWorld) InRecv(p, k int) bool   { return w.r.VM.Processors[p].InputsRecv[k] }
func (w simWorld) OutValid(p, k int) bool { return w.r.VM.Processors[p].OutputsValid[k] }
func (w simWorld) OutRecv(p, k int) bool  { return w.r.VM.Processors[p].OutputsRecv[k] }
func (w simWorld) Waitsm0(p int) bool     { return true }
func (w simWorld) Accepted() [][]uint64   { return w.r.Out }
func (w simWorld) EnvSent() []int         { return w.r.Sent }

type hdlWorld struct{ r *gen.HDLRunner }

func (w hdlWorld) sig(p int, n string) uint64 {
	return w.r.Sim.Get(fmt.Sprintf("a%d_inst.p%d_instance.%s", p, p, n))
}
func (w hdlWorld) Step() error            { return w.r.Step() }
func (w hdlWorld) Pc(p int) int           { return int(w.sig(p, "_pc")) }
func (w hdlWorld) Reg(p, r int) uint64    { return w.sig(p, fmt.Sprintf("_r%d", r)) }
func (w hdlWorld) Idle(p int) bool        { return true }
func (w hdlWorld) InValid(p, k int) bool  { return w.sig(p, fmt.Sprintf("i%d_valid", k)) == 1 }
func (w hdlWorld) InRecv(p, k int) bool   { return w.sig(p, fmt.Sprintf("i%d_recv", k)) == 1 }
func (w hdlWorld) OutValid(p, k int) bool { return w.sig(p, fmt.Sprintf("o%d_val", k)) == 1 }
func (w hdlWorld) OutRecv(p, k int) bool  { return false }
func (w hdlWorld) Waitsm0(p int) bool {
	n := fmt.Sprintf("a%d_inst.p%d_instance.waitsm", p, p)
	return w.r.Sim.Has(n) && w.r.Sim.Get(n) == 0
}
func (w hdlWorld) Accepted() [][]uint64 { return w.r.Out }
func (w hdlWorld) EnvSent() []int       { return w.r.Sent }

type ioInstr struct {
	in   bool
	reg  int
	port int
}

type port struct{ p, k int }

func propGraph(c GraphCase) pbt.Outcome {
	spec := c.Spec
	bm, err := gen.Build(spec)
	if err != nil {
		return pbt.Outcome{Fail: pbt.Failf("build", "cannot build: %v", err)}
	}
	var w gworld
	steps := c.Ticks
	if c.World == "hdl" {
		files, err := gen.RenderBM(bm, nil)
		if err != nil {
			return pbt.Outcome{Fail: pbt.Failf("render", "%v", err)}
		}
		r, err := gen.NewHDLRunner(files, spec, c.Env)
		if err != nil {
			return pbt.Outcome{Fail: pbt.Failf("hdl-elaborate", "%v", err)}
		}
		w = hdlWorld{r}
		steps = 3 * c.Ticks
	} else {
		r, err := gen.NewRunner(bm, c.Env, nil)
		if err != nil {
			return pbt.Outcome{Fail: pbt.Failf("init", "cannot init: %v", err)}
		}
		defer r.Close()
		w = simWorld{r}
	}

	// the IO instructions of every program
	io := make([]map[int]ioInstr, len(spec.Procs))
	for p, ps := range spec.Procs {
		io[p] = map[int]ioInstr{}
		for pc, l := range ps.Prog {
			f := strings.Fields(l)
			var x ioInstr
			switch f[0] {
			case "i2rw":
				x.in = true
				fmt.Sscanf(f[1], "r%d", &x.reg)
				fmt.Sscanf(f[2], "i%d", &x.port)
			case "r2owa":
				fmt.Sscanf(f[1], "r%d", &x.reg)
				fmt.Sscanf(f[2], "o%d", &x.port)
			default:
				continue
			}
			io[p][pc] = x
		}
	}
	// the bonds: sink -> source
	parse := func(s string) (kind byte, p, k int) {
		if s[0] == 'p' {
			var d byte
			fmt.Sscanf(s, "p%d%c%d", &p, &d, &k)
			return d, p, k
		}
		fmt.Sscanf(s[1:], "%d", &k)
		return s[0] - 32, -1, k // 'I' / 'O' : external
	}
	type bond struct {
		sinkExt bool // sink is external output sk.k
		sk      port
		srcExt  bool // source is external input sr.k
		sr      port
	}
	var bonds []bond
	internal := 0
	for _, b := range spec.Bonds {
		var bd bond
		kd, p, k := parse(b[0])
		bd.sk, bd.sinkExt = port{p, k}, kd == 'O'
		kd, p, k = parse(b[1])
		bd.sr, bd.srcExt = port{p, k}, kd == 'I'
		if bd.sinkExt && bd.srcExt {
			continue
		}
		if !bd.sinkExt && !bd.srcExt {
			internal++
		}
		bonds = append(bonds, bd)
	}

	sent := map[port][]uint64{} // per processor output
	recv := map[port][]uint64{} // per processor input
	d4 := map[port]bool{}       // per processor input: the precondition of D4/D4h held
	d5 := map[port]bool{}       // per processor output: the precondition of D5 held
	lastDone := map[port]int{}  // step in which a processor last left an r2owa on that output
	d12 := false
	sameOffer := map[port]bool{}
	prePc := make([]int, len(spec.Procs))
	var fail *pbt.Failure
	var failIn, failOut port
	for st := 0; st < steps && fail == nil; st++ {
		for p := range spec.Procs {
			prePc[p] = w.Pc(p)
			for k := 0; k < spec.Procs[p].N; k++ {
				if !w.InValid(p, k) {
					sameOffer[port{p, k}] = false
				}
			}
			x, isIO := io[p][prePc[p]]
			if !isIO || !w.Idle(p) {
				continue
			}
			if x.in {
				if w.InRecv(p, x.port) && w.InValid(p, x.port) && sameOffer[port{p, x.port}] {
					d4[port{p, x.port}] = true
				}
			} else if c.World == "sim" {
				if last, ok := lastDone[port{p, x.port}]; ok && !w.OutValid(p, x.port) && w.OutRecv(p, x.port) && st-last <= 2 {
					// (the recorded mechanism: the second write arrives before the received flags had the tick
					// they need to fall; a received line still high later than that is something else)
					d5[port{p, x.port}] = true
				}
			} else if w.Waitsm0(p) && w.OutValid(p, x.port) {
				d12 = true
			}
		}
		if err := w.Step(); err != nil {
			return pbt.Outcome{Fail: pbt.Failf("step", "step error: %v", err)}
		}
		for p := range spec.Procs {
			x, isIO := io[p][prePc[p]]
			if !isIO || w.Pc(p) == prePc[p] {
				continue
			}
			if x.in {
				recv[port{p, x.port}] = append(recv[port{p, x.port}], w.Reg(p, x.reg))
				sameOffer[port{p, x.port}] = true
			} else {
				sent[port{p, x.port}] = append(sent[port{p, x.port}], w.Reg(p, x.reg))
				lastDone[port{p, x.port}] = st
			}
		}
		offeredOn := func(sr port) []uint64 {
			s := sent[sr]
			if x, isIO := io[sr.p][w.Pc(sr.p)]; isIO && !x.in && x.port == sr.k {
				return append(append([]uint64(nil), s...), w.Reg(sr.p, x.reg))
			}
			return s
		}
		for _, b := range bonds {
			var got, snt, off []uint64
			var what string
			switch {
			case b.srcExt:
				got = recv[b.sk]
				n := w.EnvSent()[b.sr.k]
				all := c.Env.In[b.sr.k]
				snt = all[:n]
				off = all
				if n+1 < len(all) {
					off = all[:n+1]
				}
				what = fmt.Sprintf("bond i%d->p%di%d", b.sr.k, b.sk.p, b.sk.k)
			case b.sinkExt:
				got = w.Accepted()[b.sk.k]
				snt, off = sent[b.sr], offeredOn(b.sr)
				what = fmt.Sprintf("bond p%do%d->o%d", b.sr.p, b.sr.k, b.sk.k)
			default:
				got = recv[b.sk]
				snt, off = sent[b.sr], offeredOn(b.sr)
				what = fmt.Sprintf("bond p%do%d->p%di%d", b.sr.p, b.sr.k, b.sk.p, b.sk.k)
			}
			switch {
			case len(got) < len(snt):
				fail = pbt.Failf("lost", "%s step %d, %s: the source moved past its %d-th value, the sink has taken %d: sent=%v received=%v", c.World, st, what, len(snt), len(got), snt, got)
			case len(got) > len(off):
				fail = pbt.Failf("dup", "%s step %d, %s: the sink has taken %d values, only %d were offered: offered=%v received=%v", c.World, st, what, len(got), len(off), off, got)
			default:
				for k := range got {
					if got[k] != off[k] {
						fail = pbt.Failf("dup", "%s step %d, %s: the sink received %v, the offered sequence is %v (position %d differs)", c.World, st, what, got, off, k)
						break
					}
				}
			}
			if fail != nil {
				failIn, failOut = b.sk, b.sr
				if b.sinkExt {
					failIn = port{-1, -1}
				}
				if b.srcExt {
					failOut = port{-1, -1}
				}
				break
			}
		}
	}

	labels := []string{fmt.Sprintf("procs=%d", len(spec.Procs)), fmt.Sprintf("rsize=%d", spec.Rsize)}
	widths := map[string]bool{}
	for _, ps := range spec.Procs {
		if ps.N > 0 {
			widths[fmt.Sprintf("inbits=%d", gen.NeededBits(ps.N))] = true
		}
		widths[fmt.Sprintf("outbits=%d", gen.NeededBits(ps.M))] = true
		if ps.M >= 3 {
			widths["proc-with>=3-outputs"] = true
		}
		if ps.N >= 3 {
			widths["proc-with>=3-inputs"] = true
		}
	}
	for l := range widths {
		labels = append(labels, l)
	}
	if len(d4) > 0 {
		labels = append(labels, "D4-pre-fired")
	}
	if len(d5) > 0 {
		labels = append(labels, "D5-pre-fired")
	}
	if d12 {
		labels = append(labels, "D12-pre-fired")
	}
	sort.Strings(labels)
	minInternal := -1
	for _, b := range bonds {
		if b.sinkExt || b.srcExt {
			continue
		}
		if n := len(recv[b.sk]); minInternal < 0 || n < minInternal {
			minInternal = n
		}
	}
	out := pbt.Outcome{NonTrivial: internal >= 1 && minInternal >= 3, Labels: labels}
	if fail != nil {
		// excused only by the recorded finding of the very port that misbehaved: a duplicate by D4/D4h on
		// the capturing input, a loss (simulator) by D5 on the writing output
		excused := false
		switch {
		case fail.Sig == "dup" && failIn.p >= 0 && d4[failIn]:
			if c.World == "sim" {
				fail.Sig = "D4:i2rw-rereads-while-own-recv-high"
			} else {
				fail.Sig = "D4h:i2rw-rereads-while-own-recv-high"
			}
			excused = true
		case fail.Sig == "lost" && c.World == "sim" && failOut.p >= 0 && d5[failOut]:
			fail.Sig = "D5:r2owa-completes-on-stale-recv"
			excused = true
		}
		if excused && !c.Strict {
			out.Excluded = strings.SplitN(fail.Sig, ":", 2)[0]
			out.Labels = append(out.Labels, "excluded-breach:"+fail.Sig)
			return out
		}
		out.Fail = fail
	}
	return out
}

const ruleGraph = "arbitrary bond graphs: dataflow-shaped machines of 1..4 processors with up to 5 inputs and 5 outputs each (port fields of 1, 2 and 3 bits), fan-out, external and internal sources mixed, ALU padding 0..3 (half of the cases: 4..5 after every IO instruction, outside the recorded findings by construction), input streams of 0..20 values, input gaps and output stalls 0..4; every bond (processor->processor, external input->processor, processor->external output) is judged after every step with the history invariant of sim_history, observed at the pc/registers of the processors; a breach is excused only by the precondition monitor of a recorded finding on the very port that misbehaved; non-trivial = an internal bond exists and every internal bond transferred >=3 values"

var (
	graphSim = pbt.Def("sim_graph", ruleGraph+"; simulator world", genGraph("sim"), propGraph)
	graphHDL = pbt.Def("hdl_graph", ruleGraph+"; generated-hardware world (3 cycles per tick of budget)", genGraph("hdl"), propGraph)
)

func init() { Props = append(Props, graphSim, graphHDL) }
