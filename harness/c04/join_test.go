package c04

// C04, join shape: two producers feed the two inputs of one consumer (fan-in). Each bond is judged on
// its own with the same history invariant; both the simulator and the generated hardware are run.

import (
	"fmt"
	"sort"
	"strings"

	"pgregory.net/rapid"
	"verifharness/gen"
	"verifharness/pbt"
)

type JoinCase struct {
	Rsize    int
	ProdPadA [2]int // per producer: non-IO instructions between inc and r2owa
	ProdPadB [2]int // after the r2owa
	PadFirst int    // consumer: before the first i2rw
	PadMid   int    // between the two i2rw (0 = back to back on different ports)
	PadEnd   int    // after the second
	Swap     bool   // read i1 before i0
	Forward  bool   // forward the sum to an external output
	OutStall int
	Ticks    int
	World    string // "sim" | "hdl"
	Strict   bool
}

func (c JoinCase) spec() gen.BMSpec {
	var s gen.BMSpec
	s.Rsize = c.Rsize
	for p := 0; p < 2; p++ {
		prog := []string{"clr r0", "inc r0"}
		prog = append(prog, pad(c.ProdPadA[p])...)
		prog = append(prog, "r2owa r0 o0")
		prog = append(prog, pad(c.ProdPadB[p])...)
		prog = append(prog, "j 1")
		s.Procs = append(s.Procs, gen.ProcSpec{R: 1, N: 0, M: 1, O: gen.NeededBits(len(prog)), Ops: gen.UsedOps(prog), Prog: prog})
	}
	first, second := "i2rw r0 i0", "i2rw r1 i1"
	if c.Swap {
		first, second = "i2rw r1 i1", "i2rw r0 i0"
	}
	var q []string
	q = append(q, pad(c.PadFirst)...)
	q = append(q, first)
	q = append(q, pad(c.PadMid)...)
	q = append(q, second)
	q = append(q, pad(c.PadEnd)...)
	m := 0
	if c.Forward {
		q = append(q, "r2owa r1 o0", "nop")
		m = 1
	}
	q = append(q, "j 0")
	s.Procs = append(s.Procs, gen.ProcSpec{R: 1, N: 2, M: m, O: gen.NeededBits(len(q)), Ops: gen.UsedOps(q), Prog: q})
	s.Bonds = [][2]string{{"p2i0", "p0o0"}, {"p2i1", "p1o0"}}
	if c.Forward {
		s.Bonds = append(s.Bonds, [2]string{"o0", "p2o0"})
		s.Outputs = 1
	}
	return s
}

func genJoin(world string) func(t *rapid.T) JoinCase {
	return func(t *rapid.T) JoinCase {
		var c JoinCase
		c.World = world
		c.Rsize = rapid.SampledFrom([]int{8, 16, 32, 64}).Draw(t, "rsize")
		for p := 0; p < 2; p++ {
			c.ProdPadA[p] = rapid.IntRange(0, 3).Draw(t, "ppa")
			c.ProdPadB[p] = rapid.IntRange(1, 5).Draw(t, "ppb") // at least one instruction between two writes (clear of D5/D12)
		}
		c.PadFirst = rapid.IntRange(0, 3).Draw(t, "pf")
		c.PadMid = rapid.IntRange(0, 2).Draw(t, "pm")
		c.PadEnd = rapid.IntRange(0, 4).Draw(t, "pe")
		c.Swap = rapid.Bool().Draw(t, "swap")
		c.Forward = rapid.Bool().Draw(t, "fwd")
		c.OutStall = rapid.IntRange(0, 3).Draw(t, "stall")
		c.Ticks = rapid.IntRange(40, 250).Draw(t, "ticks")
		return c
	}
}

// joinObs abstracts the two worlds: program counters, registers and the handshake flags of the consumer.
type joinObs struct {
	step    func() error
	pc      func(p int) int
	reg     func(p, r int) uint64
	ownRecv func(in int) bool // consumer's own received flag of input `in`
	valid   func(in int) bool // valid line of the consumer's input `in`
	idle    func(p int) bool  // processor is not in the middle of a simulator delay
	close   func()
}

func propJoin(c JoinCase) pbt.Outcome {
	spec := c.spec()
	bm, err := gen.Build(spec)
	if err != nil {
		return pbt.Outcome{Fail: pbt.Failf("build", "cannot build: %v", err)}
	}
	env := gen.Env{}
	if c.Forward {
		env.OutStall = []int{c.OutStall}
	}
	var o joinObs
	budget := c.Ticks
	if c.World == "hdl" {
		files, err := gen.RenderBM(bm, nil)
		if err != nil {
			return pbt.Outcome{Fail: pbt.Failf("render", "%v", err)}
		}
		r, err := gen.NewHDLRunner(files, spec, env)
		if err != nil {
			return pbt.Outcome{Fail: pbt.Failf("hdl-elaborate", "%v", err)}
		}
		sig := func(p int, n string) string { return fmt.Sprintf("a%d_inst.p%d_instance.%s", p, p, n) }
		o = joinObs{
			step:    r.Step,
			pc:      func(p int) int { return int(r.Sim.Get(sig(p, "_pc"))) },
			reg:     func(p, x int) uint64 { return r.Sim.Get(sig(p, fmt.Sprintf("_r%d", x))) },
			ownRecv: func(in int) bool { return r.Sim.Get(sig(2, fmt.Sprintf("i%d_recv", in))) == 1 },
			valid:   func(in int) bool { return r.Sim.Get(sig(2, fmt.Sprintf("i%d_valid", in))) == 1 },
			idle:    func(int) bool { return true },
			close:   func() {},
		}
		budget = 3 * c.Ticks
	} else {
		r, err := gen.NewRunner(bm, env, nil)
		if err != nil {
			return pbt.Outcome{Fail: pbt.Failf("init", "%v", err)}
		}
		o = joinObs{
			step:    r.Step,
			pc:      func(p int) int { return int(r.VM.Processors[p].Pc) },
			reg:     func(p, x int) uint64 { return gen.U64(r.VM.Processors[p].Registers[x]) },
			ownRecv: func(in int) bool { return r.VM.Processors[2].InputsRecv[in] },
			valid:   func(in int) bool { return r.VM.Processors[2].InputsValid[in] },
			idle:    func(p int) bool { return r.VM.Processors[p].DelayCounter == 0 },
			close:   r.Close,
		}
	}
	defer o.close()
	prodW := [2]int{}
	for p := 0; p < 2; p++ {
		for i, l := range spec.Procs[p].Prog {
			if strings.HasPrefix(l, "r2owa") {
				prodW[p] = i
			}
		}
	}
	consR := [2]int{} // index of the i2rw on input 0 / 1; it loads r0 / r1
	for j, l := range spec.Procs[2].Prog {
		if l == "i2rw r0 i0" {
			consR[0] = j
		}
		if l == "i2rw r1 i1" {
			consR[1] = j
		}
	}
	var sent, recv [2][]uint64
	sameOffer := [2]bool{}
	d4 := false
	var fail *pbt.Failure
	for t := 0; t < budget && fail == nil; t++ {
		prePc := [3]int{o.pc(0), o.pc(1), o.pc(2)}
		for in := 0; in < 2; in++ {
			if !o.valid(in) {
				sameOffer[in] = false
			}
			// recorded finding D4/D4h: a second capture of the SAME offer (valid has not fallen since the
			// previous capture) while the consumer's own received flag is still up
			if prePc[2] == consR[in] && o.idle(2) && o.ownRecv(in) && o.valid(in) && sameOffer[in] {
				d4 = true
			}
		}
		if err := o.step(); err != nil {
			return pbt.Outcome{Fail: pbt.Failf("step", "%v", err)}
		}
		for in := 0; in < 2; in++ {
			if prePc[2] == consR[in] && o.pc(2) == consR[in]+1 {
				recv[in] = append(recv[in], o.reg(2, in))
				sameOffer[in] = true
			}
		}
		for p := 0; p < 2; p++ {
			if prePc[p] == prodW[p] && o.pc(p) == prodW[p]+1 {
				sent[p] = append(sent[p], o.reg(p, 0))
			}
		}
		for ch := 0; ch < 2; ch++ {
			offered := sent[ch]
			if o.pc(ch) == prodW[ch] {
				offered = append(append([]uint64(nil), sent[ch]...), o.reg(ch, 0))
			}
			switch {
			case len(recv[ch]) < len(sent[ch]):
				fail = pbt.Failf("lost", "%s step %d, bond p%do0->p2i%d: producer moved past its %d-th write, the consumer has captured %d: sent=%v received=%v", c.World, t, ch, ch, len(sent[ch]), len(recv[ch]), sent[ch], recv[ch])
			case len(recv[ch]) > len(offered):
				fail = pbt.Failf("dup", "%s step %d, bond p%do0->p2i%d: consumer captured %d values, only %d were offered: offered=%v received=%v", c.World, t, ch, ch, len(recv[ch]), len(offered), offered, recv[ch])
			default:
				for k := range recv[ch] {
					if recv[ch][k] != offered[k] {
						fail = pbt.Failf("dup", "%s step %d, bond p%do0->p2i%d: consumer received %v, produced sequence is %v (position %d differs)", c.World, t, ch, ch, recv[ch], offered, k)
						break
					}
				}
			}
			if fail != nil {
				break
			}
		}
	}
	labels := []string{"world=" + c.World, fmt.Sprintf("padmid=%d", c.PadMid), fmt.Sprintf("rsize=%d", c.Rsize)}
	if d4 {
		labels = append(labels, "D4-pre-fired")
	}
	sort.Strings(labels)
	minRecv := len(recv[0])
	if len(recv[1]) < minRecv {
		minRecv = len(recv[1])
	}
	out := pbt.Outcome{NonTrivial: minRecv >= 4, Labels: labels}
	if fail != nil {
		if d4 && fail.Sig == "dup" {
			fail.Sig = "D4:i2rw-rereads-while-own-recv-high"
			if c.World == "hdl" {
				fail.Sig = "D4h:i2rw-rereads-while-own-recv-high"
			}
			if !c.Strict {
				out.Excluded = strings.SplitN(fail.Sig, ":", 2)[0]
				return out
			}
		}
		out.Fail = fail
	}
	return out
}

const ruleJoin = "join shape: two producers (strictly increasing counters, r2owa, padding, at least one instruction between two writes) feed the two inputs of one consumer that reads them with two i2rw separated by 0..2 non-IO instructions (either order), optionally forwarding to an external output with stalls; each bond is judged with the same history invariant as entry sim_history; non-trivial = at least 4 values captured on both bonds"

var (
	joinSim = pbt.Def("sim_join", ruleJoin+"; simulator world", genJoin("sim"), propJoin)
	joinHDL = pbt.Def("hdl_join", ruleJoin+"; generated-hardware world (3 cycles per tick of budget)", genJoin("hdl"), propJoin)
)

func init() { Props = append(Props, joinSim, joinHDL) }
