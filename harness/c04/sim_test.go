// C04 — a bond delivers every value exactly once, in order, to every consumer.
// Simulator world: generated producer/consumer programs (padding, per-opcode delays, environment
// stalls, fan-out) run on bondmachine.VM; history invariant checked after every tick.
package c04

import (
	"fmt"
	"sort"
	"strings"
	"testing"

	"github.com/BondMachineHQ/BondMachine/pkg/simbox"
	"pgregory.net/rapid"
	"verifharness/gen"
	"verifharness/pbt"
)

type Consumer struct {
	PadBefore int  // non-IO instructions before the i2rw
	PadAfter  int  // after the i2rw
	Forward   bool // forward every received value to a private external output with r2owa
	PadEnd    int  // after the forward
	OutStall  int  // environment stall on the private output
	// Sicv3: the consumer takes the offers with sicv3 (acknowledges a valid, measures the gap to the next one)
	// instead of capturing them with i2rw: transfers are counted, values are not compared. Simulator world.
	Sicv3 bool `json:",omitempty"`
	// Finite > 0: the consumer reads that many values and its program ends there (the simulator halts a
	// processor that runs off the end of its ROM; the hardware wraps around: simulator world only). The
	// producer must then wait for ever on its next write.
	Finite int `json:",omitempty"`
}

type Case struct {
	Rsize     int
	ProdPadA  int  // producer: non-IO instructions between inc and r2owa
	ProdPadB  int  // after the r2owa
	Burst     bool // the producer issues two writes back to back (r2owa r0; r2owa r1) in every iteration
	Consumers []Consumer
	Delays    map[string]int // opcode -> fixed extra delay (single-valued distribution)
	Ticks     int
	Safe      bool // generated inside the region where the recorded findings D4/D5 cannot arise
	Strict    bool // replay files of recorded findings: report the finding instead of counting it as excluded
}

func pad(n int) []string {
	var r []string
	for i := 0; i < n; i++ {
		r = append(r, "nop")
	}
	return r
}

func (c Case) spec() gen.BMSpec {
	var s gen.BMSpec
	s.Rsize = c.Rsize
	// producer = processor 0
	var p []string
	if c.Burst {
		// r0 = 2,4,6,… r1 = 3,5,7,… written back to back: the stream 2,3,4,5,… is strictly increasing
		p = []string{"clr r0", "clr r1", "inc r1"}
		p = append(p, "inc r0", "inc r0", "inc r1", "inc r1") // loop start = 3
		p = append(p, pad(c.ProdPadA)...)
		p = append(p, "r2owa r0 o0", "r2owa r1 o0")
		p = append(p, pad(c.ProdPadB)...)
		p = append(p, "j 3")
	} else {
		p = []string{"clr r0"}
		p = append(p, "inc r0") // loop start = 1
		p = append(p, pad(c.ProdPadA)...)
		p = append(p, "r2owa r0 o0")
		p = append(p, pad(c.ProdPadB)...)
		p = append(p, "j 1")
	}
	s.Procs = append(s.Procs, gen.ProcSpec{R: 1, N: 0, M: 1, O: gen.NeededBits(len(p)), Ops: gen.UsedOps(p), Prog: p})
	for i, cs := range c.Consumers {
		var q []string
		q = append(q, pad(cs.PadBefore)...)
		if cs.Sicv3 {
			q = append(q, "sicv3 r0 i0")
		} else {
			q = append(q, "i2rw r0 i0")
		}
		q = append(q, pad(cs.PadAfter)...)
		m := 0
		if cs.Forward && !cs.Sicv3 {
			q = append(q, "r2owa r0 o0")
			q = append(q, pad(cs.PadEnd)...)
			m = 1
		}
		if cs.Finite > 0 {
			body := append([]string(nil), q...)
			for k := 1; k < cs.Finite; k++ {
				q = append(q, body...)
			}
			if cs.PadEnd == 0 && !cs.Forward {
				// the program ends on the read itself (PadAfter instructions follow it)
				q = q[:len(q)-cs.PadAfter]
				q = append(q, pad(cs.PadAfter%2)...)
			}
		} else {
			q = append(q, "j 0")
		}
		s.Procs = append(s.Procs, gen.ProcSpec{R: 1, N: 1, M: m, O: gen.NeededBits(len(q) + 1), Ops: gen.UsedOps(append(append([]string(nil), q...), "j 0")), Prog: q})
		s.Bonds = append(s.Bonds, [2]string{fmt.Sprintf("p%di0", i+1), "p0o0"})
		if cs.Forward && !cs.Sicv3 {
			s.Bonds = append(s.Bonds, [2]string{fmt.Sprintf("o%d", s.Outputs), fmt.Sprintf("p%do0", i+1)})
			s.Outputs++
		}
	}
	return s
}

func genCase(t *rapid.T) Case {
	var c Case
	c.Rsize = rapid.SampledFrom([]int{8, 16, 32, 64}).Draw(t, "rsize")
	c.Safe = rapid.IntRange(0, 3).Draw(t, "safe") != 0
	c.Burst = rapid.IntRange(0, 3).Draw(t, "burst") == 0
	k := rapid.IntRange(1, 3).Draw(t, "k")
	c.ProdPadA = rapid.IntRange(0, 3).Draw(t, "ppa")
	c.ProdPadB = rapid.IntRange(0, 4).Draw(t, "ppb")
	for i := 0; i < k; i++ {
		cs := Consumer{
			PadBefore: rapid.IntRange(0, 3).Draw(t, "cb"),
			PadAfter:  rapid.IntRange(0, 3).Draw(t, "ca"),
			Forward:   rapid.Bool().Draw(t, "fwd"),
			PadEnd:    rapid.IntRange(0, 3).Draw(t, "ce"),
			OutStall:  rapid.IntRange(0, 3).Draw(t, "stall"),
		}
		cs.Sicv3 = rapid.IntRange(0, 5).Draw(t, "sicv3") == 0
		if rapid.IntRange(0, 5).Draw(t, "finite") == 0 {
			cs.Finite = rapid.IntRange(1, 3).Draw(t, "reads")
		}
		c.Consumers = append(c.Consumers, cs)
	}
	if rapid.Bool().Draw(t, "delays") {
		c.Delays = map[string]int{}
		for _, op := range []string{"nop", "inc", "i2rw", "r2owa", "j"} {
			if rapid.IntRange(0, 2).Draw(t, "hasdelay") == 0 {
				c.Delays[op] = rapid.IntRange(1, 3).Draw(t, "delay")
			}
		}
	}
	if c.Safe {
		// Keep out of the recorded findings' region by construction: after a transfer both sides spend
		// enough instructions before they touch the same port again for the previous handshake to have
		// returned to idle (valid and recv both low). Four non-IO instructions on each side are enough
		// for every delay assignment generated here because delays stretch both sides' instructions.
		c.Delays = nil
		c.Burst = false
		if c.ProdPadB+c.ProdPadA < 4 {
			c.ProdPadB = 4 - c.ProdPadA
		}
		for i := range c.Consumers {
			cs := &c.Consumers[i]
			if cs.PadBefore+cs.PadAfter+cs.PadEnd < 4 {
				cs.PadAfter = 4 - cs.PadBefore - cs.PadEnd
				if cs.PadAfter < 0 {
					cs.PadAfter = 0
				}
			}
		}
	}
	c.Ticks = rapid.IntRange(40, 300).Draw(t, "ticks")
	return c
}

func prop(c Case) pbt.Outcome {
	spec := c.spec()
	bm, err := gen.Build(spec)
	if err != nil {
		return pbt.Outcome{Fail: pbt.Failf("build", "cannot build: %v", err)}
	}
	var delays *simbox.SimDelays
	if len(c.Delays) > 0 {
		delays = simbox.NewSimDelays()
		for op, d := range c.Delays {
			delays.OpcodeDelays[op] = simbox.DelayDistribution{int32(d): 1.0}
		}
	}
	env := gen.Env{}
	for _, cs := range c.Consumers {
		if cs.Forward && !cs.Sicv3 {
			env.OutStall = append(env.OutStall, cs.OutStall)
		}
	}
	r, err := gen.NewRunner(bm, env, delays)
	if err != nil {
		return pbt.Outcome{Fail: pbt.Failf("init", "cannot init: %v", err)}
	}
	defer r.Close()

	prodW := map[int]int{} // index of each r2owa of the producer -> register it writes
	for i, l := range spec.Procs[0].Prog {
		if strings.HasPrefix(l, "r2owa r0") {
			prodW[i] = 0
		} else if strings.HasPrefix(l, "r2owa r1") {
			prodW[i] = 1
		}
	}
	consR := make([]map[int]bool, len(c.Consumers)) // the positions of the consumer's reads
	for i := range c.Consumers {
		consR[i] = map[int]bool{}
		for j, l := range spec.Procs[i+1].Prog {
			if strings.HasPrefix(l, "i2rw") || strings.HasPrefix(l, "sicv3") {
				consR[i][j] = true
			}
		}
	}
	var sent []uint64
	recv := make([][]uint64, len(c.Consumers))
	lastDone := -10 // tick in which the producer last left an r2owa
	d4, d5 := false, false
	sameOffer := make([]bool, len(c.Consumers)) // the offer on the consumer's input was captured and valid has not fallen since
	var fail *pbt.Failure
	for tick := 0; tick < c.Ticks && fail == nil; tick++ {
		pp := r.VM.Processors[0]
		prePcP := int(pp.Pc)
		// precondition monitors of the recorded findings (state before the step)
		if _, atW := prodW[prePcP]; atW && pp.DelayCounter == 0 && !pp.OutputsValid[0] && pp.OutputsRecv[0] && tick-lastDone <= 2 {
			// r2owa starts while received of the previous transfer is still high: the recorded finding is the
			// second write arriving before the consumers' received flags had the tick they need to fall; a
			// received line still high later than that is not the recorded mechanism
			d5 = true
		}
		prePcC := make([]int, len(c.Consumers))
		for i := range c.Consumers {
			cp := r.VM.Processors[i+1]
			prePcC[i] = int(cp.Pc)
			if !cp.InputsValid[0] {
				sameOffer[i] = false
			}
			if consR[i][prePcC[i]] && cp.DelayCounter == 0 && cp.InputsRecv[0] && cp.InputsValid[0] && sameOffer[i] {
				d4 = true // i2rw captures the SAME offer again: its own recv of the previous read is still high and valid never fell
			}
		}
		if err := r.Step(); err != nil {
			return pbt.Outcome{Fail: pbt.Failf("step", "step error: %v", err)}
		}
		// consumers first: a consumer may capture in the tick before the producer moves on
		for i := range c.Consumers {
			cp := r.VM.Processors[i+1]
			if consR[i][prePcC[i]] && int(cp.Pc) == prePcC[i]+1 {
				v := gen.U64(cp.Registers[0])
				if c.Consumers[i].Sicv3 {
					// no value is captured: the transfer counts, its position takes the offered value
					v = 0
					if reg, atW := prodW[prePcP]; atW {
						v = gen.U64(pp.Registers[reg])
					} else if len(sent) > len(recv[i]) {
						v = sent[len(recv[i])]
					}
				}
				recv[i] = append(recv[i], v)
				sameOffer[i] = true
			}
		}
		if reg, atW := prodW[prePcP]; atW && int(pp.Pc) == prePcP+1 {
			sent = append(sent, gen.U64(pp.Registers[reg]))
			lastDone = tick
		}
		// history invariant
		offered := sent
		if reg, atW := prodW[int(pp.Pc)]; atW {
			offered = append(append([]uint64(nil), sent...), gen.U64(pp.Registers[reg]))
		}
		for i := range c.Consumers {
			if len(recv[i]) < len(sent) {
				fail = pbt.Failf("lost", "tick %d: producer moved past its %d-th write while consumer %d has captured only %d values: sent=%v received=%v", tick, len(sent), i, len(recv[i]), sent, recv[i])
				break
			}
			if len(recv[i]) > len(offered) {
				fail = pbt.Failf("dup", "tick %d: consumer %d captured %d values, only %d were offered: offered=%v received=%v", tick, i, len(recv[i]), len(offered), offered, recv[i])
				break
			}
			for k := range recv[i] {
				if recv[i][k] != offered[k] {
					fail = pbt.Failf("dup", "tick %d: consumer %d received %v, produced sequence is %v (position %d differs)", tick, i, recv[i], offered, k)
					break
				}
			}
			if fail != nil {
				break
			}
		}
	}
	// the environment's view: every forwarded stream is a prefix of what was sent
	if fail == nil {
		o := 0
		for i, cs := range c.Consumers {
			if !cs.Forward || cs.Sicv3 {
				continue
			}
			got := r.Out[o]
			o++
			for k := range got {
				if k >= len(recv[i]) || got[k] != recv[i][k] {
					fail = pbt.Failf("forward", "external output of consumer %d delivered %v, consumer had received %v", i, got, recv[i])
					break
				}
			}
		}
	}
	labels := []string{fmt.Sprintf("k=%d", len(c.Consumers)), fmt.Sprintf("rsize=%d", c.Rsize)}
	if c.Safe {
		labels = append(labels, "safe-region")
	}
	if c.Burst {
		labels = append(labels, "burst")
	}
	for _, cs := range c.Consumers {
		if cs.Sicv3 {
			labels = append(labels, "sicv3-consumer")
			break
		}
	}
	for _, cs := range c.Consumers {
		if cs.Finite > 0 {
			labels = append(labels, "finite-consumer")
			break
		}
	}
	if len(c.Delays) > 0 {
		labels = append(labels, "delays")
	}
	if d4 {
		labels = append(labels, "D4-pre-fired")
	}
	if d5 {
		labels = append(labels, "D5-pre-fired")
	}
	sort.Strings(labels)
	minRecv := len(sent)
	for i := range recv {
		if len(recv[i]) < minRecv {
			minRecv = len(recv[i])
		}
	}
	out := pbt.Outcome{NonTrivial: minRecv >= 5, Labels: labels}
	if fail != nil {
		// a duplicate is explained only by D4 (re-read while own recv is high), a loss only by D5 (write
		// completing on a stale received line)
		excused := false
		switch {
		case d4 && (fail.Sig == "dup" || fail.Sig == "forward"):
			fail.Sig = "D4:i2rw-rereads-while-own-recv-high"
			excused = true
		case d5 && fail.Sig == "lost":
			fail.Sig = "D5:r2owa-completes-on-stale-recv"
			excused = true
		}
		if excused && !c.Strict {
			out.Excluded = strings.SplitN(fail.Sig, ":", 2)[0]
			out.Labels = append(out.Labels, "excluded-breach:"+fail.Sig)
			return out
		}
		out.Fail = fail
	}
	return out
}

const ruleSim = "simulator world: one producer writing a strictly increasing counter with r2owa to k=1..3 consumers (i2rw, optionally forwarding to a private external output), nop padding 0..4 around every IO instruction, optional fixed per-opcode delays 1..3, environment stalls 0..3, 40..300 ticks; invariant after every tick: each consumer's captured sequence is a prefix of the offered sequence, never longer, and the producer never moves past a write a consumer has not captured; non-trivial = every consumer captured >=5 values"

var simEntry = pbt.Def("sim_history", ruleSim, genCase, prop)

var Props = []*pbt.Entry{simEntry, hdlEntry}

func TestProps(t *testing.T)  { pbt.RunAll(t, "C04", Props) }
func TestReplay(t *testing.T) { pbt.ReplayAll(t, "C04", Props) }
